import json
import os
import subprocess
import sys
import time

VERIF = os.path.dirname(os.path.dirname(os.path.abspath(__file__)))
REPO = os.environ.get("VERIF_REPO", "/repo")
BUILD = os.path.join(VERIF, "build")
EVID = os.path.join(VERIF, "evidence")
REPLAYS = os.path.join(VERIF, "replays")
NCPU = os.cpu_count() or 4


def log(*a):
    print("[verif]", *a, file=sys.stderr, flush=True)


def run(cmd, cwd=None, env=None, timeout=None, stdin=None):
    """Run, return (rc, stdout, stderr, wall_s). rc = -9 on timeout."""
    t0 = time.time()
    e = dict(os.environ)
    if env:
        e.update(env)
    try:
        p = subprocess.run(cmd, cwd=cwd, env=e, timeout=timeout, stdout=subprocess.PIPE, stderr=subprocess.PIPE,
                           input=stdin, text=True, errors="replace")
        return p.returncode, p.stdout, p.stderr, time.time() - t0
    except subprocess.TimeoutExpired as ex:
        out = ex.stdout.decode(errors="replace") if isinstance(ex.stdout, bytes) else (ex.stdout or "")
        err = ex.stderr.decode(errors="replace") if isinstance(ex.stderr, bytes) else (ex.stderr or "")
        return -9, out, err, time.time() - t0


def known_findings():
    p = os.path.join(VERIF, "known_findings.json")
    if not os.path.exists(p):
        return {"findings": [], "fixed": []}
    return json.load(open(p))


def repo_head():
    rc, out, _, _ = run(["git", "-C", REPO, "rev-parse", "--short", "HEAD"])
    rc2, st, _, _ = run(["git", "-C", REPO, "status", "--porcelain", "--untracked-files=no"])
    return out.strip() + ("+dirty" if st.strip() else "")
