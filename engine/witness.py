"""Paired native witness search for Verus units: when an obligation of a unit fails on changed text,
run a small native test (units/witness/<unit>.rs) against the real crates of the mirrored tree and,
if it finds a concrete failing input, attach it to the replay file (the VIOLATION line then carries a
real counterexample instead of `no-failing-input-found`)."""
import os
import re
import shutil

from common import VERIF, BUILD
from common import run as _sh
import kani

WDIR = os.path.join(BUILD, "witness")


def run_witness(w, obligation=None):
    """w = {"file": "c26_resolve.rs", "crate": "fuel-tx", "crate_dir": "fuel-tx"}"""
    scratch = os.path.join(WDIR, "repo")
    os.makedirs(WDIR, exist_ok=True)
    rc, out, err, _ = _sh(["rsync", "-a", "--delete", "--exclude", "/target", "--exclude", ".git", kani.REPO.rstrip("/") + "/", scratch + "/"])
    if rc != 0:
        return {"ran": False, "error": err[-500:]}
    tdir = os.path.join(scratch, w["crate_dir"], "tests")
    os.makedirs(tdir, exist_ok=True)
    name = "verif_witness_" + os.path.splitext(w["file"])[0]
    shutil.copy(os.path.join(VERIF, "units", "witness", w["file"]), os.path.join(tdir, name + ".rs"))
    cmd = ["cargo", "test", "-p", w["crate"], "--offline", "--test", name]
    if w.get("features"):
        cmd += ["--features", w["features"]]
    cmd += ["--", "--nocapture"]
    rc, out, err, wall = _sh(cmd, cwd=scratch, env={"CARGO_TARGET_DIR": os.path.join(WDIR, "target"), "CARGO_NET_OFFLINE": "true"}, timeout=1500)
    txt = out + "\n" + err
    wit = re.findall(r"WITNESS: ([^\n]*)", txt)
    ran = "test result:" in txt
    shutil.rmtree(scratch, ignore_errors=True)
    return {"ran": ran, "reproduced": bool(wit), "witness": wit[:3], "cmd": " ".join(cmd), "wall_s": wall,
            "file": w["file"], "crate": w["crate"], "crate_dir": w["crate_dir"], "features": w.get("features"), "tail": txt[-1200:] if not ran else ""}


def run(w, v):  # noqa: F811  (called by ./check as witness.run)
    return run_witness(w, v)


def rerun(prev):
    return run_witness({"file": prev["file"], "crate": prev["crate"], "crate_dir": prev["crate_dir"], "features": prev.get("features")})
