"""Kani engine: overlay copy of /repo + injected cfg(kani) harness modules, runner, output parser,
counterexample extraction (concrete playback) and native replay."""
import fcntl
import json
import os
import re
import shutil
import threading
import time

from common import VERIF, REPO, BUILD, NCPU, log, run
from rustsrc import Source, LocateError

KDIR = os.path.join(BUILD, "kani")
OVERLAY = os.path.join(KDIR, "repo")
TARGET = os.path.join(KDIR, "target")
UNITS = os.path.join(VERIF, "units", "kani")
ENV = {"CARGO_NET_OFFLINE": "true", "CARGO_TERM_COLOR": "never"}


class KaniSetupError(Exception):
    pass


class Lock:
    def __enter__(self):
        os.makedirs(KDIR, exist_ok=True)
        self.f = open(os.path.join(KDIR, ".lock"), "w")
        fcntl.flock(self.f, fcntl.LOCK_EX)
        return self

    def __exit__(self, *a):
        fcntl.flock(self.f, fcntl.LOCK_UN)
        self.f.close()


def inject_spec():
    return json.load(open(os.path.join(UNITS, "inject.json")))


def sync_overlay(dest=OVERLAY, src=REPO):
    """Mirror the working tree of /repo and add the cfg(kani) modules. Add-only; mtimes preserved so
    cargo only rebuilds what changed."""
    os.makedirs(dest, exist_ok=True)
    rc, out, err, _ = run(["rsync", "-a", "--delete", "--exclude", "/target", "--exclude", ".git",
                           src.rstrip("/") + "/", dest.rstrip("/") + "/"])
    if rc != 0:
        raise KaniSetupError("rsync failed: " + err[-400:])
    spec = inject_spec()
    report = []
    spec_mtime = os.path.getmtime(os.path.join(UNITS, "inject.json"))
    for m in spec["modules"]:
        parent = os.path.join(dest, m["parent"])
        if not os.path.exists(parent):
            raise KaniSetupError("parent module file missing: " + m["parent"])
        hdst = os.path.join(dest, m["dest"])
        os.makedirs(os.path.dirname(hdst), exist_ok=True)
        if m.get("gen"):
            gdir = os.path.join(KDIR, "gen")
            os.makedirs(gdir, exist_ok=True)
            hsrc = os.path.join(gdir, m["mod"] + ".rs")
            tmp = hsrc + ".new"
            rc, out, err, _ = run(["python3", os.path.join(UNITS, m["gen"]), src, tmp])
            if rc != 0:
                raise KaniSetupError("generator %s failed: %s" % (m["gen"], err[-600:]))
            m["harnesses"] = out.split()
            if os.path.exists(hsrc) and open(hsrc).read() == open(tmp).read():
                os.remove(tmp)
            else:
                os.replace(tmp, hsrc)
        else:
            hsrc = os.path.join(UNITS, m["file"])
        shutil.copy2(hsrc, hdst)
        for ex in m.get("extra", []):
            gdir = os.path.join(KDIR, "gen")
            os.makedirs(gdir, exist_ok=True)
            esrc = os.path.join(gdir, os.path.basename(ex["dest"]))
            tmp = esrc + ".new"
            rc, out, err, _ = run(["python3", os.path.join(UNITS, ex["gen"]), src, tmp])
            if rc != 0:
                raise KaniSetupError("generator %s failed: %s" % (ex["gen"], err[-600:]))
            if os.path.exists(esrc) and open(esrc).read() == open(tmp).read():
                os.remove(tmp)
            else:
                os.replace(tmp, esrc)
            shutil.copy2(esrc, os.path.join(dest, ex["dest"]))
        st = os.stat(parent)
        with open(parent, "a") as f:
            f.write("\n#[cfg(kani)]\npub(crate) mod %s;\n" % m["mod"])
        mt = max(st.st_mtime, spec_mtime)
        os.utime(parent, (mt, mt))
        report.append({"module": m["mod"], "parent": m["parent"], "harness_file": m.get("file") or m.get("gen"),
                       "generated_harnesses": m.get("harnesses")})
    for c in spec.get("contracts", []):
        path = os.path.join(dest, c["file"])
        s = Source(path)
        try:
            it = s.find_fn_in(c["scope"], c["fn"]) if c.get("scope") else s.find_fn(c["fn"])
        except LocateError as e:
            raise KaniSetupError("contract target lost: %s" % e)
        st = os.stat(path)
        ins = "".join("#[cfg_attr(kani, %s)]\n" % a for a in c["attrs"])
        pos = it["start"]
        # keep indentation of the fn line
        txt = s.text[:pos] + ins + s.text[pos:]
        open(path, "w").write(txt)
        mt = max(st.st_mtime, spec_mtime)
        os.utime(path, (mt, mt))
        report.append({"contract_on": c["file"] + "::" + c["fn"], "attrs": c["attrs"]})
    for c in spec.get("crate_attrs", []):
        path = os.path.join(dest, c["file"])
        st = os.stat(path)
        txt = open(path).read()
        # crate attributes must precede items: put right after the leading inner doc/attr block start
        open(path, "w").write(c["text"] + "\n" + txt) if c.get("prepend") else None
        mt = max(st.st_mtime, spec_mtime)
        os.utime(path, (mt, mt))
    return report


# ------------------------------------------------------------------------------------------------
class Watchdog(threading.Thread):
    """Kill cbmc processes whose RSS exceeds the cap (they would otherwise OOM the box)."""

    def __init__(self, cap_gb):
        super().__init__(daemon=True)
        self.cap = cap_gb * 1024 * 1024  # kB
        self.stop = False
        self.killed = []

    def run(self):
        while not self.stop:
            try:
                procs = []
                for pid in os.listdir("/proc"):
                    if not pid.isdigit():
                        continue
                    try:
                        comm = open("/proc/%s/comm" % pid).read().strip()
                        if comm not in ("cbmc", "goto-instrument", "kissat", "cadical"):
                            continue
                        for ln in open("/proc/%s/status" % pid):
                            if ln.startswith("VmRSS:"):
                                kb = int(ln.split()[1])
                                procs.append((kb, pid))
                                if kb > self.cap:
                                    os.kill(int(pid), 9)
                                    self.killed.append((pid, kb))
                    except (OSError, ValueError):
                        continue
                # machine-level guard: with many solvers in parallel the box (no swap) must not run out
                try:
                    avail = [int(l.split()[1]) for l in open("/proc/meminfo") if l.startswith("MemAvailable:")][0]
                    if avail < 4 * 1024 * 1024 and procs:
                        kb, pid = max(procs)
                        os.kill(int(pid), 9)
                        self.killed.append((pid, kb))
                        log("watchdog: MemAvailable %d MB - killed largest solver pid %s rss %d MB" % (avail // 1024, pid, kb // 1024))
                except (OSError, ValueError, IndexError):
                    pass
            except OSError:
                pass
            time.sleep(2)


RX_CHECKING = re.compile(r"^(?:Thread (\d+): )?Checking harness (\S+?)\.\.\.\s*$")
RX_THREAD = re.compile(r"^Thread (\d+):\s*$")


def parse_output(text):
    """Return {harness: {status, checks_total, checks_failed, failed_checks[], covers, time_s, raw}}"""
    res = {}
    cur_by_thread = {}
    cur = None
    block = None
    lines = text.split("\n")
    i = 0
    active = None  # harness whose block we are reading

    def fin(h, blk):
        r = res.setdefault(h, {})
        raw = "\n".join(blk)
        r["raw"] = raw[-6000:]
        m = re.search(r"\*\* (\d+) of (\d+) failed", raw)
        if m:
            r["checks_failed"], r["checks_total"] = int(m.group(1)), int(m.group(2))
        m = re.search(r"\*\* (\d+) of (\d+) cover properties satisfied", raw)
        if m:
            r["covers_sat"], r["covers_total"] = int(m.group(1)), int(m.group(2))
        m = re.search(r"Verification Time: ([0-9.]+)s", raw)
        if m:
            r["time_s"] = float(m.group(1))
        fc = []
        for fm in re.finditer(r"Failed Checks: (.*)\n\s*File: \"([^\"]*)\", line (\d+), in (\S+)", raw):
            fc.append({"desc": fm.group(1).strip(), "file": fm.group(2), "line": int(fm.group(3)), "fn": fm.group(4)})
        for fm in re.finditer(r"Failed Checks: (.*)\n(?!\s*File:)", raw):
            fc.append({"desc": fm.group(1).strip(), "file": "", "line": 0, "fn": ""})
        r["failed_checks"] = fc
        if "VERIFICATION:- SUCCESSFUL" in raw:
            r["status"] = "success"
        elif "VERIFICATION:- FAILED" in raw:
            unsup = [c for c in fc if "not currently supported by Kani" in c["desc"]]
            real = [c for c in fc if "unwinding assertion" not in c["desc"] and c not in unsup]
            if unsup:
                r["status"] = "unsupported"   # a construct Kani cannot model became reachable: undecided, never an alarm
            elif fc and not real:
                r["status"] = "unwind"
            elif real:
                r["status"] = "failed"
            else:
                r["status"] = "error"
        else:
            r["status"] = "error"
        if re.search(r"CBMC timed out|timed out|Timeout", raw):
            r["status"] = "timeout"
        if re.search(r"out of memory|std::bad_alloc|Killed|signal 9|SIGKILL", raw) and r["status"] != "success":
            r["status"] = "oom"

    blocks = {}
    for ln in lines:
        m = RX_CHECKING.match(ln)
        if m:
            th = m.group(1) or "0"
            cur_by_thread[th] = m.group(2)
            blocks.setdefault(m.group(2), [])
            active = m.group(2)
            continue
        m = RX_THREAD.match(ln)
        if m:
            active = cur_by_thread.get(m.group(1))
            continue
        if active is not None:
            blocks[active].append(ln)
            if ln.startswith("Verification Time:") or "CBMC timed out" in ln:
                pass
    for h, blk in blocks.items():
        fin(h, blk)
    m = re.search(r"Complete - (\d+) successfully verified harnesses, (\d+) failures, (\d+) total", text)
    summary = {"ok": int(m.group(1)), "fail": int(m.group(2)), "total": int(m.group(3))} if m else None
    return res, summary


def tree_hash(overlay=OVERLAY):
    """Content hash of everything a harness result depends on: all sources of the overlay (the
    mirrored /repo working tree + injected modules), manifests, lock file and tool versions."""
    import hashlib
    h = hashlib.sha256()
    h.update(b"kani-0.68.0/cbmc-6.11.0\n")
    for root, dirs, files in os.walk(overlay):
        dirs[:] = sorted(d for d in dirs if d not in ("target", ".git"))
        for f in sorted(files):
            if f.endswith((".rs", ".toml", ".lock")):
                p = os.path.join(root, f)
                h.update(os.path.relpath(p, overlay).encode() + b"\0")
                h.update(open(p, "rb").read())
                h.update(b"\0")
    return h.hexdigest()[:24]


def run_group(pkg, harnesses, features=None, timeout_s=600, harness_timeout_s=300, extra=None, jobs=None,
              mem_cap_gb=24, overlay=OVERLAY, target=TARGET, use_cache=True):
    """One `cargo kani` invocation for a list of exact harness names of one package.

    Successful harness results are memoised under build/kani/cache/<tree hash>/: the key is the
    content of the whole mirrored source tree, so a hit is the same obligation on byte-identical
    sources (several properties share instruction harnesses).  Failures are never cached."""
    cached = {}
    cdir = None
    if use_cache and overlay == OVERLAY and os.environ.get("VERIF_NO_CACHE") != "1":
        cdir = os.path.join(KDIR, "cache", tree_hash(overlay) + "-" + re.sub(r"\W+", "_", pkg + (features or "")))
        os.makedirs(cdir, exist_ok=True)
        for h in harnesses:
            cp = os.path.join(cdir, re.sub(r"\W+", "_", h) + ".json")
            if os.path.exists(cp):
                cached[h] = json.load(open(cp))
                cached[h]["cached"] = True
        harnesses = [h for h in harnesses if h not in cached]
        if not harnesses:
            return {"rc": 0, "wall_s": 0.0, "results": cached, "summary": None, "compile_error": None,
                    "cmd": "(all %d harness results reused from the content-addressed cache %s)" % (len(cached), cdir),
                    "stderr_tail": "", "killed": []}
    cmd = ["cargo", "kani", "-p", pkg, "--target-dir", target, "--output-format", "terse",
           "-Z", "stubbing", "-Z", "function-contracts", "-Z", "unstable-options",
           "--harness-timeout", "%ds" % harness_timeout_s, "--exact", "-j", str(jobs or NCPU)]
    if features:
        cmd += ["--features", features]
    for h in harnesses:
        cmd += ["--harness", h]
    if extra:
        cmd += extra
    wd = Watchdog(mem_cap_gb)
    wd.start()
    rc, out, err, wall = run(cmd, cwd=overlay, env=ENV, timeout=timeout_s)
    wd.stop = True
    text = out + "\n" + err
    res, summary = parse_output(out)
    compile_error = None
    if rc != 0 and not res:
        blocks = re.findall(r"^error(?:\[E\d+\])?: (?!could not compile|Failed to execute)[^\n]*(?:\n[^\n]*){0,10}", err + "\n" + out, re.M)
        compile_error = "\n".join(blocks)[:4000] if blocks else err[-3000:]
    for h in harnesses:
        if h not in res:
            res[h] = {"status": "timeout" if rc == -9 else "missing", "raw": ""}
    for pid, kb in wd.killed:
        log("watchdog killed cbmc pid", pid, "rss", kb // 1024, "MB")
    if wd.killed:
        for h, r in res.items():
            if r["status"] in ("error", "failed") and not r.get("failed_checks"):
                r["status"] = "oom"
    if cdir:
        for h, r in res.items():
            if r.get("status") == "success":
                r2 = {k: v for k, v in r.items() if k != "raw"}
                json.dump(r2, open(os.path.join(cdir, re.sub(r"\W+", "_", h) + ".json"), "w"))
    res.update(cached)
    return {"rc": rc, "wall_s": wall, "results": res, "summary": summary, "compile_error": compile_error,
            "cmd": " ".join(cmd), "stderr_tail": err[-2000:], "killed": wd.killed}


# ------------------------------------------------------------------------------------------------
def concrete_playback(pkg, harness, features=None, timeout_s=900, extra=None):
    """Re-run a failing harness asking Kani to print the concrete playback unit test."""
    cmd = ["cargo", "kani", "-p", pkg, "--target-dir", TARGET, "-Z", "stubbing", "-Z", "function-contracts",
           "-Z", "concrete-playback", "--concrete-playback=print", "--exact", "--harness", harness]
    if features:
        cmd += ["--features", features]
    if extra:
        cmd += extra
    rc, out, err, wall = run(cmd, cwd=OVERLAY, env=ENV, timeout=timeout_s)
    m = re.search(r"```\s*\n(/// Test generated for harness[\s\S]*?)```", out)
    if not m:
        m = re.search(r"(#\[test\]\s*\nfn kani_concrete_playback_[\s\S]*?\n\})", out)
    test_src = m.group(1) if m else None
    vals = []
    if test_src:
        for vm in re.finditer(r"//\s*(.+)\n\s*vec!\[([0-9, ]*)\]", test_src):
            vals.append({"value": vm.group(1).strip(), "bytes": [int(x) for x in vm.group(2).replace(" ", "").split(",") if x]})
    return {"test_src": test_src, "values": vals, "wall_s": wall, "rc": rc, "out_tail": out[-3000:]}


def native_replay(pkg, crate_dir, mod_dest, test_src, features=None, timeout_s=1500, expect=None):
    """Append the playback test to the harness module in a scratch copy and run it natively."""
    scratch = os.path.join(KDIR, "replay-scratch")
    if os.path.exists(scratch):
        shutil.rmtree(scratch)
    try:
        sync_overlay(dest=os.path.join(scratch, "repo"))
        mod_path = os.path.join(scratch, "repo", mod_dest)
        with open(mod_path, "a") as f:
            f.write("\n" + test_src + "\n")
        name = re.search(r"fn (kani_concrete_playback_\w+)", test_src).group(1)
        cmd = ["cargo", "kani", "playback", "-Z", "concrete-playback", "-p", pkg]
        if features:
            cmd += ["--features", features]
        cmd += ["--", name]
        env = dict(ENV)
        env["CARGO_TARGET_DIR"] = os.path.join(KDIR, "replay-target")
        rc, out, err, wall = run(cmd, cwd=os.path.join(scratch, "repo"), env=env, timeout=timeout_s)
        txt = out + "\n" + err
        failed = bool(re.search(r"test result: FAILED|panicked at", txt))
        passed = bool(re.search(r"test result: ok\. 1 passed", txt))
        pm = re.search(r"panicked at ([^\n]*)\n([^\n]*)", txt)
        panic = pm.group(0) if pm else None
        same = False
        if failed and panic:
            if not expect:
                same = True
            for c in expect or []:
                core = c["desc"].strip().strip('"').strip()
                if core and core in panic:
                    same = True
                if c.get("file") and ("%s:%d:" % (c["file"], c["line"])) in panic:
                    same = True
        k = txt.find("running 1 test")
        return {"ran": failed or passed, "reproduced": same, "panicked": failed, "panic": panic,
                "wall_s": wall, "tail": (txt[k:k + 2500] if k >= 0 else txt[-2500:]), "cmd": " ".join(cmd)}
    finally:
        shutil.rmtree(scratch, ignore_errors=True)
