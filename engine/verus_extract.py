"""Build a single-file Verus input from a sidecar template + verbatim text extracted from /repo.

Template syntax (units/verus/<unit>.vrs): ordinary lines are copied; `//@` lines are directives.

  //@ extract fn <relpath> :: [<impl-or-trait header> ::] <name>
  //@ ret <name>                      name the return value:  -> T   becomes  -> (name: T)
  //@ sig <<old>> => <<new>>          literal rewrite in the signature (declared, counted)
  //@ sub <<old>> => <<new>> [#n|*]   literal rewrite in the body (declared, counted)
  //@ contract                        following lines: requires/ensures/decreases
  //@ top                             following lines inserted at the start of the body
  //@ loop <N>                        following lines: loop spec of the N-th loop of the function
  //@ before `anchor` [#n]            following lines inserted before the line containing anchor
  //@ after `anchor` [#n]             following lines inserted after the line containing anchor
  //@ private                         drop the `pub` / `pub(crate)` qualifier of the fn (declared, counted)
  //@ canary                          (canary variant only) `assert(false);` at the start of the body
  //@ end

  //@ extract item <relpath> :: <kind> <Name>      struct / enum / const / type / static, verbatim
  //@ sub ... / //@ end                            (optional block form:  //@ extract item+ ...)

Everything extracted is byte-for-byte the repository text except for the rewrites that are
declared here and counted in the report.  A rewrite or anchor that no longer applies raises
ExtractError (=> exit 2 / undecided), unless a *fuzzy* anchor (one changed token) is found.
"""
import difflib
import hashlib
import json
import os
import re

from rustsrc import Source, LocateError, line_start, line_end, match_brace

REPO = os.environ.get("VERIF_REPO", "/repo")


class ExtractError(Exception):
    pass


AUTO_REWRITES = [
    # (name, regex, replacement, scope)
    ("closure-underscore-param", re.compile(r"\|_\|"), "|_e|"),
]
INNER_ATTR_OK = re.compile(r"^\s*#\[(allow|inline|must_use|rustfmt::skip|deny|warn|expect)\b[^\]]*\]\s*(//.*)?$")
DEBUG_ASSERT = re.compile(r"^\s*debug_assert(_eq|_ne)?!\(")


def _lits(s):
    m = re.match(r"\s*<<(.*?)>>\s*=>\s*<<(.*?)>>\s*(#\d+|\*|\?)?\s*$", s, re.S)
    if not m:
        raise ExtractError("bad rewrite directive: %r" % s)
    return m.group(1).replace("\\n", "\n"), m.group(2).replace("\\n", "\n"), m.group(3)


def _anchor(s):
    m = re.match(r"\s*`(.*)`\s*(#(\d+))?\s*$", s)
    if not m:
        raise ExtractError("bad anchor directive: %r" % s)
    return m.group(1), int(m.group(3) or 0)


class Unit:
    def __init__(self, tmpl_path, canary=False, baseline=None):
        self.tmpl_path = tmpl_path
        self.canary = canary
        # fingerprints of the items on the tree where this unit last verified: a rewrite or anchor
        # that no longer applies is tolerated (recorded as "degraded") only for items whose text
        # CHANGED since then - on unchanged text it is a stale sidecar and an error.
        self.baseline = baseline or {}
        self.cur_changed = False
        self.out = []        # list of (text_line, origin)
        self.auto_consts = {}
        self.report = {"items": [], "rewrites": {}, "fuzzy_anchors": [], "canaries": [], "degraded": []}
        self._src = {}

    def src(self, rel):
        if rel not in self._src:
            p = os.path.join(REPO, rel)
            if not os.path.exists(p):
                raise ExtractError("source file missing: " + rel)
            self._src[rel] = Source(p)
        return self._src[rel]

    def count(self, name, n=1):
        self.report["rewrites"][name] = self.report["rewrites"].get(name, 0) + n

    # ---------------------------------------------------------------------------------------------
    def build(self):
        lines = open(self.tmpl_path).read().split("\n")
        i = 0
        while i < len(lines):
            ln = lines[i]
            if ln.startswith("//@ extract "):
                j = i + 1
                block = []
                single = ln.startswith("//@ extract item ") or ln.startswith("//@ extract const ")
                if not single:
                    while j < len(lines) and lines[j].strip() != "//@ end":
                        block.append((j + 1, lines[j]))
                        j += 1
                    if j >= len(lines):
                        raise ExtractError("%s:%d: extract block without //@ end" % (self.tmpl_path, i + 1))
                    j += 1
                self.extract(ln, block, i + 1)
                i = j
            elif ln.startswith("//@"):
                i += 1  # comment-like directive (unit name, notes)
            else:
                self.out.append((ln, ("sidecar", i + 1)))
                i += 1
        return self

    # ---------------------------------------------------------------------------------------------
    def extract(self, header, block, tline):
        parts = [p.strip() for p in header[len("//@ extract "):].split(" :: ")]
        kind_rel = parts[0].split()
        kind, rel = kind_rel[0], kind_rel[1]
        s = self.src(rel)
        try:
            if kind in ("fn", "fn+"):
                if len(parts) == 2:
                    it = s.find_fn(parts[1])
                else:
                    it = s.find_fn_in(parts[1], parts[2])
                self.emit_fn(s, rel, it, block, tline)
            elif kind in ("item", "item+"):
                self.emit_item(s, rel, parts[1], block, tline)
            else:
                raise ExtractError("unknown extract kind " + kind)
        except LocateError as e:
            raise ExtractError(str(e))

    def emit_item(self, s, rel, what, block, tline):
        toks = what.split()
        pat = r"(?<!\w)" + r"\s+".join(re.escape(t) for t in toks) + r"(?!\w)"
        allhits = [m for m in re.finditer(pat, s.masked)]
        hits = [m for m in allhits if s.masked[:m.start()].count("{") == s.masked[:m.start()].count("}")]
        if not hits and len(allhits) == 1:
            hits = allhits   # a unique nested item (e.g. an associated const inside an impl)
        if len(hits) != 1:
            raise ExtractError("%s: item %r: %d hits" % (rel, what, len(hits)))
        m = hits[0]
        ls = line_start(s.text, m.start())
        # end: ';' or matching brace, whichever comes first at depth 0
        k = m.end()
        depth = 0
        end = None
        while k < len(s.masked):
            ch = s.masked[k]
            if ch in "([":
                depth += 1
            elif ch in ")]":
                depth -= 1
            elif ch == "{" and depth == 0:
                end = match_brace(s.masked, k) + 1
                break
            elif ch == ";" and depth == 0:
                end = k + 1
                break
            k += 1
        text = s.text[ls:end]
        # tuple structs: `struct X(..);`
        if end < len(s.text) and s.masked[end:end + 1] == ";":
            pass
        for (tl, d) in block:
            if d.startswith("//@ sub "):
                old, new, mode = _lits(d[len("//@ sub "):])
                if old not in text:
                    raise ExtractError("%s: item %s: rewrite pattern %r not found" % (rel, what, old))
                text = text.replace(old, new)
                self.count("sub:%s=>%s" % (old, new))
        first = s.lineno(ls)
        self.report["items"].append({"kind": "item", "file": rel, "name": what, "lines": [first, s.lineno(end)],
                                     "sha256": hashlib.sha256(s.text[ls:end].encode()).hexdigest()})
        for k, t in enumerate(text.split("\n")):
            self.out.append((t, ("repo", rel, first + k)))

    # ---------------------------------------------------------------------------------------------
    def emit_fn(self, s, rel, it, block, tline):
        name = it["name"]
        raw = s.item_text(it)
        first = s.lineno(it["start"])
        sha = hashlib.sha256(raw.encode()).hexdigest()
        self.report["items"].append({"kind": "fn", "file": rel, "name": name, "lines": [first, s.lineno(it["end"])],
                                     "sha256": sha})
        key = "%s::%s" % (rel, name)
        changed = key in self.baseline and self.baseline[key] != sha

        def lost(msg):
            """a declared rewrite / anchor does not apply: tolerated only on changed text"""
            if changed:
                self.report["degraded"].append({"fn": name, "what": msg})
                return True
            raise ExtractError("%s: fn %s: %s" % (rel, name, msg))
        sig = s.text[it["start"]:it["open"]]
        body = s.text[it["open"]:it["end"]]          # starts with '{'
        body_first = s.lineno(it["open"])

        # parse directives
        dirs = []
        cur = None
        for (tl, d) in block:
            if d.startswith("//@ "):
                cur = {"d": d[4:].strip(), "tl": tl, "lines": []}
                dirs.append(cur)
            elif d.startswith("//@"):
                continue
            else:
                if cur is None:
                    raise ExtractError("%s:%d: text before any directive in extract block" % (self.tmpl_path, tl))
                cur["lines"].append((tl, d))

        contract, top, loops, befores, afters, cuts = [], [], {}, [], [], []
        canary = False
        for d in dirs:
            w = d["d"].split(None, 1)
            op, arg = w[0], (w[1] if len(w) > 1 else "")
            if op == "ret":
                m = re.search(r"->\s*(.+?)\s*(where\b[\s\S]*)?$", sig.rstrip())
                if not m:
                    raise ExtractError("%s: fn %s has no return type for //@ ret" % (rel, name))
                ty = m.group(1).strip()
                wh = (" " + m.group(2)) if m.group(2) else ""
                sig = sig[:m.start()] + "-> (%s: %s)%s\n" % (arg.strip(), ty, wh)
                self.count("named-return")
            elif op == "sig":
                old, new, _ = _lits(arg)
                if sig.count(old) != 1:
                    raise ExtractError("%s: fn %s: signature rewrite %r hits %d" % (rel, name, old, sig.count(old)))
                sig = sig.replace(old, new)
                self.count("sig:%s=>%s" % (old, new))
            elif op == "sub":
                old, new, mode = _lits(arg)
                c = body.count(old)
                if c == 0:
                    lost("body rewrite %r not found" % old)
                    continue
                if mode == "*":
                    body = body.replace(old, new)
                    self.count("sub:%s=>%s" % (old, new), c)
                else:
                    n = int(mode[1:]) if mode else 1
                    if not mode and c != 1:
                        lost("body rewrite %r hits %d" % (old, c))
                        body = body.replace(old, new)
                        continue
                    idx = -1
                    for _ in range(n):
                        idx = body.find(old, idx + 1)
                    if idx < 0:
                        lost("body rewrite %r #%d not found" % (old, n))
                        continue
                    body = body[:idx] + new + body[idx + len(old):]
                    self.count("sub:%s=>%s" % (old, new))
            elif op == "subw":
                # whitespace-tolerant rewrite of every occurrence: the pattern's tokens may be separated by any
                # white space in the source (so a re-indented or re-wrapped call chain is still recognised);
                # mode "?" = optional (absence is not a lost rewrite)
                old, new, mode = _lits(arg)
                rx = re.compile(r"\s*".join(re.escape(t) for t in old.split()))
                body2, c = rx.subn(lambda m: new, body)
                if c == 0:
                    if mode != "?":
                        lost("body rewrite (any white space) %r not found" % old)
                    continue
                body = body2
                self.count("subw:%s=>%s" % (old, new), c)
            elif op == "private":
                sig2 = re.sub(r"^(\s*)pub(\s*\([^)]*\))?\s+", r"\1", sig, count=1)
                if sig2 == sig:
                    raise ExtractError("%s: fn %s: //@ private but no visibility qualifier" % (rel, name))
                sig = sig2
                self.count("visibility-dropped")
            elif op == "contract":
                contract = d["lines"]
            elif op == "top":
                top = d["lines"]
            elif op == "loop":
                loops[int(arg)] = d["lines"]
            elif op == "before":
                befores.append((_anchor(arg), d["lines"], d["tl"]))
            elif op == "after":
                afters.append((_anchor(arg), d["lines"], d["tl"]))
            elif op == "cut":
                # //@ cut `first line anchor` .. `end line anchor (exclusive)`  + replacement lines: the repository lines from
                # the first anchor up to (not including) the end anchor are DROPPED and replaced by the sidecar lines
                m = re.match(r"\s*`(.*?)`\s*\.\.\s*`(.*?)`\s*$", arg)
                if not m:
                    raise ExtractError("bad cut directive: %r" % arg)
                cuts.append((m.group(1), m.group(2), d["lines"], d["tl"]))
            elif op == "canary":
                canary = True
            else:
                raise ExtractError("%s:%d: unknown directive %r" % (self.tmpl_path, d["tl"], d["d"]))

        # body lines with origin
        blines = body.split("\n")
        rows = [[t, ("repo", rel, body_first + k)] for k, t in enumerate(blines)]

        # automatic rewrites
        kept = []
        for t, o in rows:
            if INNER_ATTR_OK.match(t):
                self.count("inner-attribute-dropped")
                continue
            if re.match(r"^\s*#\[", t) and not t.strip().startswith("#[verifier"):
                raise ExtractError("%s:%d: fn %s: unsupported inner attribute %r" % (rel, o[2], name, t.strip()))
            for (rn, rx, rep) in AUTO_REWRITES:
                t2, c = rx.subn(rep, t)
                if c:
                    self.count(rn, c)
                    t = t2
            kept.append([t, o])
        rows = kept
        # debug_assert statements (may span lines): drop up to the terminating ');'
        res, k = [], 0
        while k < len(rows):
            if DEBUG_ASSERT.match(rows[k][0]):
                j = k
                while j < len(rows) and not rows[j][0].rstrip().endswith(");"):
                    j += 1
                self.count("debug_assert-dropped")
                k = j + 1
                continue
            res.append(rows[k])
            k += 1
        rows = res

        # loops: find headers on the (rewritten) body text
        if loops:
            btxt = "\n".join(t for t, _ in rows)
            bs = Source(rel + "#" + name, btxt)
            fn = {"open": 0, "end": len(btxt)}
            lps = bs.loops(fn)
            ins = []
            for n, spec in loops.items():
                if n > len(lps):
                    lost("has %d loops, sidecar wants loop %d" % (len(lps), n))
                    continue
                ins.append((lps[n - 1][1], spec))
            # split rows at brace positions (from the end)
            for pos, spec in sorted(ins, key=lambda x: -x[0]):
                li = btxt.count("\n", 0, pos)
                col = pos - (btxt.rfind("\n", 0, pos) + 1)
                t, o = rows[li]
                newrows = [[t[:col].rstrip(), o]] + [[x, ("sidecar", tl)] for tl, x in spec] + [[" " * 4 + t[col:], o]]
                rows[li:li + 1] = newrows
                btxt = "\n".join(t for t, _ in rows)

        def find_anchor(anc, nth):
            idxs = [k for k, (t, o) in enumerate(rows) if o[0] == "repo" and anc in t]
            if nth:
                if len(idxs) < nth:
                    idxs = []
                else:
                    return idxs[nth - 1]
            elif len(idxs) == 1:
                return idxs[0]
            elif len(idxs) > 1:
                raise ExtractError("%s: fn %s: anchor %r is ambiguous (%d hits)" % (rel, name, anc, len(idxs)))
            # fuzzy: one closest repo line
            best, bk = 0.0, None
            second = 0.0
            for k, (t, o) in enumerate(rows):
                if o[0] != "repo":
                    continue
                r = difflib.SequenceMatcher(None, anc, t.strip()).ratio()
                if r > best:
                    second, best, bk = best, r, k
                elif r > second:
                    second = r
            if nth == 0 and bk is not None and best >= 0.8 and best - second > 0.05:
                self.report["fuzzy_anchors"].append({"fn": name, "anchor": anc, "matched": rows[bk][0].strip(),
                                                     "ratio": round(best, 3)})
                return bk
            raise ExtractError("%s: fn %s: anchor %r lost" % (rel, name, anc))

        for a1, a2, lines_, tl in cuts:
            try:
                # end anchor `$` = up to (not including) the function's closing brace
                k1 = find_anchor(a1, 0)
                k2 = (len(rows) - 1) if a2 == "$" else find_anchor(a2, 0)
            except ExtractError as e:
                lost("cut anchors %r .. %r lost (block kept)" % (a1, a2))
                continue
            if k2 <= k1:
                lost("cut anchors %r .. %r out of order" % (a1, a2))
                continue
            self.count("cut:%s..%s" % (a1, a2), k2 - k1)
            self.report.setdefault("cuts", []).append({"fn": name, "from": a1, "to": a2, "dropped_lines": k2 - k1,
                                                       "text": [rows[k][0] for k in range(k1, k2)]})
            rows[k1:k2] = [[x, ("sidecar", l)] for l, x in lines_]
        for (anc, nth), lines_, tl in befores:
            try:
                k = find_anchor(anc, nth)
            except ExtractError as e:
                lost("anchor %r lost (ghost block skipped)" % anc)
                continue
            rows[k:k] = [[x, ("sidecar", l)] for l, x in lines_]
        for (anc, nth), lines_, tl in afters:
            try:
                k = find_anchor(anc, nth)
            except ExtractError as e:
                lost("anchor %r lost (ghost block skipped)" % anc)
                continue
            rows[k + 1:k + 1] = [[x, ("sidecar", l)] for l, x in lines_]

        # top-of-body insertions: after the first row (which starts with '{')
        head = rows[0][0]
        assert head.startswith("{"), head
        ins = [[x, ("sidecar", l)] for l, x in top]
        if canary:
            self.report["canaries"].append(name)
            if self.canary:
                ins = [["    assert(false); // vacuity canary", ("sidecar", tline)]] + ins
        if head.strip() == "{":
            rows[1:1] = ins
        else:
            rows[0:1] = [["{", rows[0][1]]] + ins + [["    " + head[1:], rows[0][1]]]

        # signature rows
        srows = [[t, ("repo", rel, first + k)] for k, t in enumerate(sig.rstrip().split("\n"))]
        for (rn, rx, rep) in AUTO_REWRITES:
            for r in srows:
                r[0], c = rx.subn(rep, r[0])
                if c:
                    self.count(rn, c)
        crow = [[x, ("sidecar", l)] for l, x in contract]
        # module-level `const NAME: T = literal-expression;` items of the same source file that the body
        # refers to and the sidecar does not define are carried along verbatim (so a body that starts using
        # a new file-local constant stays decidable); recorded as "auto-const:<NAME>"
        tmpl_text = open(self.tmpl_path).read()
        raw = open(os.path.join(REPO, rel)).read()
        for ident in sorted(set(re.findall(r"\b[A-Z][A-Z0-9_]{2,}\b", "\n".join(r[0] for r in rows)))):
            if re.search(r"\bconst\s+%s\b" % ident, tmpl_text) or ident in self.auto_consts:
                continue
            m = re.search(r"^(?:pub(?:\([a-z]+\))?\s+)?const\s+%s\s*:\s*(u8|u16|u32|u64|usize|i32|i64|bool)\s*=\s*([^;{}]+);" % ident, raw, re.M)
            if m:
                self.auto_consts[ident] = ("pub const %s: %s = %s;" % (ident, m.group(1), m.group(2).strip()), rel, raw[:m.start()].count("\n") + 1)
                self.count("auto-const:%s" % ident)
        for t, o in srows + crow + rows:
            self.out.append((t, o))

    # ---------------------------------------------------------------------------------------------
    def write(self, path):
        if self.auto_consts:
            idx = max(k for k, (t, _) in enumerate(self.out) if t.startswith("} // verus!"))
            self.out[idx:idx] = [(t, ("repo", rel, ln)) for (t, rel, ln) in self.auto_consts.values()]
        with open(path, "w") as f:
            f.write("\n".join(t for t, _ in self.out) + "\n")
        self.report["line_map"] = [list(o) for _, o in self.out]
        self.report["generated"] = path
        self.report["template"] = self.tmpl_path
        return self.report


def fingerprint(report):
    return {"%s::%s" % (i["file"], i["name"]): i["sha256"] for i in report["items"]}


if __name__ == "__main__":
    import sys
    u = Unit(sys.argv[1]).build()
    rep = u.write(sys.argv[2])
    rep2 = dict(rep)
    rep2.pop("line_map")
    print(json.dumps(rep2, indent=1))
