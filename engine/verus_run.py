"""Run Verus on a generated unit, map results back to /repo and the sidecar."""
import json
import os
import re

from common import BUILD, VERIF, log, run
from verus_extract import Unit, ExtractError, fingerprint

VDIR = os.path.join(BUILD, "verus")
UNITS = os.path.join(VERIF, "units", "verus")
FPRINTS = os.path.join(VERIF, "baseline", "fingerprints.json")


def _parse_errors(stderr, report, gen_name):
    """rustc-style diagnostics -> list of {msg, gen_line, origin, fn, snippet}."""
    errs = []
    lm = report["line_map"]
    gen_lines = open(report["generated"]).read().split("\n")
    blocks = re.split(r"\n(?=error)", stderr)
    for b in blocks:
        m = re.match(r"error(?:\[E\d+\])?: (.*)", b)
        if not m or m.group(1).startswith("aborting due to"):
            continue
        msg = m.group(1).strip()
        locs = [(int(l), int(c)) for (l, c) in re.findall(r"--> [^\n:]*:(\d+):(\d+)", b)]
        # secondary spans: lines like `123 |     ensures ...` followed by ^^^ markers
        span_lines = [int(x) for x in re.findall(r"\n\s*(\d+) \|", b)]
        primary = locs[0][0] if locs else (span_lines[0] if span_lines else 0)
        all_lines = sorted(set([primary] + span_lines))
        origins = []
        for gl in all_lines:
            if 1 <= gl <= len(lm):
                origins.append({"gen_line": gl, "origin": lm[gl - 1], "text": gen_lines[gl - 1].strip()[:200]})
        # enclosing fn in generated file
        fn = None
        for k in range(min(primary, len(gen_lines)) - 1, -1, -1):
            fm = re.match(r"\s*(?:pub(?:\([^)]*\))?\s+)?(?:open\s+|closed\s+)?(?:proof\s+|spec\s+|exec\s+|const\s+)*fn\s+(\w+)", gen_lines[k])
            if fm:
                fn = fm.group(1)
                break
        errs.append({"msg": msg, "gen_line": primary, "fn": fn, "where": origins, "raw": b[:1500]})
    return errs


def run_unit(name, template, canary=False, timeout=600, rlimit=None):
    os.makedirs(VDIR, exist_ok=True)
    tpath = os.path.join(UNITS, template)
    gen = os.path.join(VDIR, name + ("_canary" if canary else "") + ".rs")
    res = {"unit": name, "canary": canary, "template": template}
    try:
        u = Unit(tpath, canary=canary, baseline=load_fingerprints().get(name, {})).build()
        report = u.write(gen)
    except ExtractError as e:
        res.update(status="extract-error", detail=str(e))
        return res
    res["report"] = {k: v for k, v in report.items() if k != "line_map"}
    res["fingerprint"] = fingerprint(report)
    cmd = ["verus", gen, "--output-json", "--time", "--multiple-errors", "20"]
    if rlimit:
        cmd += ["--rlimit", str(rlimit)]
    rc, out, err, wall = run(cmd, cwd=VDIR, timeout=timeout)
    res["cmd"] = " ".join(cmd)
    res["wall_s"] = wall
    if rc == -9:
        res.update(status="timeout")
        return res
    js = None
    try:
        k = out.index("{")
        js = json.loads(out[k:])
    except (ValueError, json.JSONDecodeError):
        pass
    if js is None or "verification-results" not in js:
        res.update(status="tool-error", detail=(err or out)[-3000:])
        return res
    vr = js["verification-results"]
    res["verified"] = vr.get("verified", 0)
    res["errors"] = vr.get("errors", 0)
    fn_times = {}
    try:
        for mod in js["times-ms"]["smt"]["smt-run-module-times"]:
            for f in mod.get("function-breakdown", []):
                fn_times[f["function"].split("::", 1)[-1]] = {"ms": f.get("time", 0), "ok": f.get("success"),
                                                              "mode": f.get("mode:"), "rlimit": f.get("rlimit")}
    except (KeyError, TypeError):
        pass
    res["functions"] = fn_times
    res["smt_ms"] = js.get("times-ms", {}).get("smt", {}).get("total")
    res["total_ms"] = js.get("times-ms", {}).get("total")
    if vr.get("encountered-vir-error") or (vr.get("encountered-error") and res["errors"] == 0 and not vr.get("success")):
        # not a proof failure: the tool rejected the text (unsupported construct, type error ...)
        res.update(status="tool-error", detail=err[-3000:])
        return res
    res["diagnostics"] = _parse_errors(err, report, gen)
    rl = [d for d in res["diagnostics"] if "resource limit" in d["msg"] or "rlimit" in d["msg"]]
    if vr.get("success") and res["errors"] == 0:
        res["status"] = "verified"
    elif rl and len(rl) == len(res["diagnostics"]):
        res["status"] = "rlimit"
    else:
        res["status"] = "failed"
    return res


def load_fingerprints():
    if os.path.exists(FPRINTS):
        return json.load(open(FPRINTS))
    return {}


def save_fingerprint(unit, fp):
    d = load_fingerprints()
    d[unit] = fp
    os.makedirs(os.path.dirname(FPRINTS), exist_ok=True)
    json.dump(d, open(FPRINTS, "w"), indent=1, sort_keys=True)
