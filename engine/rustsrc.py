"""Light-weight, comment/string aware locator for Rust items.

Used by the Verus extractor (copy the verbatim text of a function / struct / impl from /repo) and
by the Kani overlay (insert contract attributes above a function).  No parsing beyond brace
matching on a *masked* copy of the text (comments and literal contents blanked, same length).
"""
import re


class LocateError(Exception):
    pass


_CHAR_LIT = re.compile(r"'(\\x[0-9a-fA-F]{2}|\\u\{[0-9a-fA-F_]+\}|\\.|[^\\'\n])'")
_RAW_STR = re.compile(r'b?r(#*)"')


def mask(text):
    """Return text with comments, string and char literal *contents* replaced by spaces."""
    out = list(text)
    i, n = 0, len(text)

    def blank(a, b):
        for k in range(a, b):
            if out[k] != "\n":
                out[k] = " "

    while i < n:
        c = text[i]
        if c == "/" and i + 1 < n and text[i + 1] == "/":
            j = text.find("\n", i)
            j = n if j < 0 else j
            blank(i, j)
            i = j
        elif c == "/" and i + 1 < n and text[i + 1] == "*":
            depth, j = 1, i + 2
            while j < n and depth:
                if text.startswith("/*", j):
                    depth += 1
                    j += 2
                elif text.startswith("*/", j):
                    depth -= 1
                    j += 2
                else:
                    j += 1
            blank(i, j)
            i = j
        elif c == '"' or (c == "b" and i + 1 < n and text[i + 1] == '"'
                          and not (i and (text[i - 1].isalnum() or text[i - 1] == "_"))):
            s = i + (2 if c == "b" else 1)
            j = s
            while j < n and text[j] != '"':
                j += 2 if text[j] == "\\" else 1
            blank(s, j)
            i = j + 1
        elif c in "rb" and not (i and (text[i - 1].isalnum() or text[i - 1] == "_")) \
                and _RAW_STR.match(text, i):
            m = _RAW_STR.match(text, i)
            close = '"' + m.group(1)
            j = text.find(close, m.end())
            j = n if j < 0 else j
            blank(m.end(), j)
            i = j + len(close)
        elif c == "'":
            m = _CHAR_LIT.match(text, i)
            if m:
                blank(i + 1, m.end() - 1)
                i = m.end()
            else:
                i += 1  # lifetime
        else:
            i += 1
    return "".join(out)


def match_brace(masked, open_pos):
    """Index of the brace closing the one at open_pos."""
    assert masked[open_pos] in "{([", masked[open_pos]
    pairs = {"{": "}", "(": ")", "[": "]"}
    o, c = masked[open_pos], pairs[masked[open_pos]]
    depth = 0
    for k in range(open_pos, len(masked)):
        ch = masked[k]
        if ch == o:
            depth += 1
        elif ch == c:
            depth -= 1
            if depth == 0:
                return k
    raise LocateError("unbalanced brace at %d" % open_pos)


def _body_open(masked, start):
    """First '{' after `start` at paren/bracket/angle-agnostic depth 0 (parens and brackets only)."""
    depth = 0
    k = start
    while k < len(masked):
        ch = masked[k]
        if ch in "([":
            depth += 1
        elif ch in ")]":
            depth -= 1
        elif ch == "{" and depth == 0:
            return k
        elif ch == ";" and depth == 0:
            return -1  # declaration without body
        k += 1
    raise LocateError("no body found")


def line_start(text, pos):
    return text.rfind("\n", 0, pos) + 1


def line_end(text, pos):
    j = text.find("\n", pos)
    return len(text) if j < 0 else j


class Source:
    def __init__(self, path, text=None):
        self.path = path
        self.text = open(path).read() if text is None else text
        self.masked = mask(self.text)

    # ---- scopes -------------------------------------------------------------------------------
    def find_block(self, header_regex, within=None, nth=1):
        """Locate `header_regex ... {` and return (hdr_start, open, close).

        header_regex is matched on the masked text; whitespace in it matches any whitespace run.
        """
        lo, hi = within if within else (0, len(self.text))
        rx = re.compile(header_regex)
        hits = [m for m in rx.finditer(self.masked, lo, hi)]
        if len(hits) < nth:
            raise LocateError("%s: header /%s/ not found (nth=%d)" % (self.path, header_regex, nth))
        m = hits[nth - 1]
        op = _body_open(self.masked, m.end() - 1 if self.masked[m.end() - 1] == "{" else m.end())
        if op < 0:
            raise LocateError("%s: /%s/ has no body" % (self.path, header_regex))
        return m.start(), op, match_brace(self.masked, op)

    def impl_scope(self, header):
        """header like 'impl MerkleTree' or 'impl<T> Foo<T>' - literal, whitespace-insensitive."""
        toks = re.findall(r"\w+|[^\w\s]", header)
        pat = r"\s*".join(re.escape(t) for t in toks)
        rx = re.compile(r"(?<![\w])" + pat + r"(?=\s*(\{|where\b))")
        good = []
        for m in rx.finditer(self.masked):
            ls = line_start(self.masked, m.start())
            if self.masked[ls:m.start()].strip() in ("", "unsafe"):
                good.append(m)
        if not good:
            raise LocateError("%s: impl header %r not found" % (self.path, header))
        res = []
        for g in good:
            op = _body_open(self.masked, g.end())
            res.append((op, match_brace(self.masked, op)))
        return res

    def find_fn_in(self, header, name):
        """fn `name` directly inside any block whose header matches (impl/trait); must be unique."""
        found = []
        for sc in self.impl_scope(header):
            try:
                found.append(self.find_fn(name, sc))
            except LocateError:
                pass
        if len(found) != 1:
            raise LocateError("%s: fn %s in %r: %d hits" % (self.path, name, header, len(found)))
        return found[0]

    # ---- functions ----------------------------------------------------------------------------
    def find_fn(self, name, scope=None, nth=1):
        """Return dict(start, sig_end(open brace), end(close brace)+1) for `fn name`.

        `start` is the start of the line holding the fn's first qualifier (attributes and doc
        comments above are NOT included).
        """
        lo, hi = scope if scope else (0, len(self.text))
        rx = re.compile(r"\bfn\s+" + re.escape(name) + r"\b")
        hits = []
        for m in rx.finditer(self.masked, lo, hi):
            # depth relative to scope must be 0 when scope given (direct child)
            if scope is not None:
                d = 0
                for ch in self.masked[lo + 1:m.start()]:
                    if ch == "{":
                        d += 1
                    elif ch == "}":
                        d -= 1
                if d != 0:
                    continue
            hits.append(m)
        if len(hits) < nth:
            raise LocateError("%s: fn %s not found" % (self.path, name))
        if scope is None and len(hits) > 1 and nth == 1:
            # ambiguous without scope: prefer top-level (depth 0) definitions
            tops = []
            for m in hits:
                d = self.masked[:m.start()].count("{") - self.masked[:m.start()].count("}")
                if d == 0:
                    tops.append(m)
            if len(tops) == 1:
                hits = tops
            else:
                raise LocateError("%s: fn %s ambiguous (%d hits); give a scope" % (self.path, name, len(hits)))
        m = hits[nth - 1]
        # qualifiers before `fn` on the same statement
        ls = line_start(self.masked, m.start())
        k = m.start()
        qual = re.compile(r"(pub(\s*\([^)]*\))?|const|async|unsafe|extern(\s*\"[^\"]*\")?|default)\s*$")
        while True:
            head = self.masked[ls:k]
            mm = qual.search(head)
            if not mm or not head.strip():
                break
            k = ls + mm.start()
        start = k if self.masked[ls:k].strip() else ls
        op = _body_open(self.masked, m.end())
        if op < 0:
            semi = self.masked.find(";", m.end())
            return dict(start=start, open=-1, end=semi + 1, name=name)
        cl = match_brace(self.masked, op)
        return dict(start=start, open=op, end=cl + 1, name=name)

    def item_text(self, it):
        return self.text[it["start"]:it["end"]]

    def attrs_start(self, pos):
        """Walk upwards from the line containing pos over attribute / doc-comment lines."""
        ls = line_start(self.text, pos)
        while ls > 0:
            pe = ls - 1
            ps = line_start(self.text, pe)
            line = self.text[ps:pe].strip()
            if line.startswith("#[") or line.startswith("///") or line.startswith("//!"):
                ls = ps
            else:
                break
        return ls

    # ---- loops inside a function ----------------------------------------------------------------
    def loops(self, fn):
        """List of (kw_start, body_open) for while/loop/for headers inside fn body, in order."""
        res = []
        rx = re.compile(r"\b(while|loop|for)\b")
        for m in rx.finditer(self.masked, fn["open"], fn["end"]):
            kw = m.group(1)
            if kw == "for":
                # `for<'a>` (HRTB) or `impl X for Y` are not loops
                rest = self.masked[m.end():m.end() + 200]
                if not re.match(r"\s+[^;{]*?\bin\b", rest):
                    continue
            op = _body_open(self.masked, m.end())
            if op < 0 or op >= fn["end"]:
                continue
            res.append((m.start(), op))
        return res

    def lineno(self, pos):
        return self.text.count("\n", 0, pos) + 1
