// Native witness search for the Verus unit c10_verify: binary::verify against an independent RFC 6962
// audit-path recomputation, exhaustively for n <= 12 over honest proofs presented under every claimed
// (index, count) <= 12, plus truncated / extended variants.  Prints `WITNESS: ...` on disagreement.
use fuel_merkle::binary::{in_memory::MerkleTree, verify};
use sha2::{Digest, Sha256};

type B = [u8; 32];
fn leaf(d: &[u8]) -> B { let mut h = Sha256::new(); h.update([0u8]); h.update(d); h.finalize().into() }
fn node(l: &B, r: &B) -> B { let mut h = Sha256::new(); h.update([1u8]); h.update(l); h.update(r); h.finalize().into() }
fn split(n: u64) -> u64 { let mut k = 1; while k * 2 < n { k *= 2; } k }
/// RFC 6962 §2.1.1 audit path recomputation (top-down): None when the shape does not fit
fn audit_root(m: u64, n: u64, lf: B, path: &[B]) -> Option<B> {
    if n == 0 || m >= n { return None; }
    if n == 1 { return if path.is_empty() { Some(lf) } else { None }; }
    let (sib, rest) = path.split_last()?;
    let k = split(n);
    if m < k { audit_root(m, k, lf, rest).map(|l| node(&l, sib)) } else { audit_root(m - k, n - k, lf, rest).map(|r| node(sib, &r)) }
}

#[test]
fn witness() {
    for n in 1u64..=12 {
        let mut t = MerkleTree::new();
        let data: Vec<Vec<u8>> = (0..n).map(|i| vec![i as u8, 0xab]).collect();
        for d in &data { t.push(d); }
        for i in 0..n {
            let (root, proof) = t.prove(i).expect("proof");
            let mut variants: Vec<Vec<B>> = vec![proof.clone()];
            if !proof.is_empty() { variants.push(proof[..proof.len() - 1].to_vec()); }
            let mut longer = proof.clone(); longer.push([7u8; 32]); variants.push(longer);
            for p in &variants {
                for cn in 0u64..=13 { for ci in 0u64..=13 {
                    for (r, d) in [(root, &data[i as usize])] {
                        let got = verify(&r, d, p, ci, cn);
                        let want = audit_root(ci, cn, leaf(d), p) == Some(r);
                        if got != want {
                            println!("WITNESS: verify(root of {} leaves, data of leaf {}, proof len {}, index {}, count {}) = {} but the RFC 6962 recomputation says {}", n, i, p.len(), ci, cn, got, want);
                            panic!("witness found");
                        }
                        // and against the root the extended proof would produce
                        if let Some(r2) = audit_root(ci, cn, leaf(d), p) {
                            if !verify(&r2, d, p, ci, cn) { println!("WITNESS: verify rejects a tuple whose recomputation reaches the root (n={}, i={}, len={}, index={}, count={})", n, i, p.len(), ci, cn); panic!("witness found"); }
                        }
                    }
                }}
            }
        }
    }
}
