// Native witness search for the Verus unit c26_resolve (paired with it; run only when an obligation of
// the unit fails on changed text).  Boundary-value sweep of DependentCost::resolve against the
// specification in unbounded arithmetic; prints `WITNESS: ...` and fails on the first disagreement.
use fuel_tx::DependentCost;

fn spec(c: &DependentCost, units: u64) -> u64 {
    let sat = |x: u128| -> u64 { if x > u64::MAX as u128 { u64::MAX } else { x as u64 } };
    match *c {
        DependentCost::LightOperation { base, units_per_gas } => sat(base as u128 + (units / units_per_gas) as u128),
        DependentCost::HeavyOperation { base, gas_per_unit } => sat(base as u128 + sat(units as u128 * gas_per_unit as u128) as u128),
    }
}

#[test]
fn witness() {
    let vals: Vec<u64> = {
        let mut v = vec![0u64, 1, 2, 3, 7, 8, 9, 255, 256, 1000, 1 << 24, (1 << 32) - 1, 1 << 32, (1 << 32) + 1, 1 << 40, 1 << 62, (1 << 63) - 1, 1 << 63, (1 << 63) + 1, u64::MAX - 1, u64::MAX];
        v.sort(); v.dedup(); v
    };
    for &base in &vals { for &k in &vals { for &units in &vals {
        let mut cs = vec![DependentCost::HeavyOperation { base, gas_per_unit: k }];
        if k != 0 { cs.push(DependentCost::LightOperation { base, units_per_gas: k }); }
        for c in cs {
            let got = std::panic::catch_unwind(|| c.resolve(units));
            let want = spec(&c, units);
            match got {
                Ok(g) if g == want => {}
                Ok(g) => { println!("WITNESS: {:?}.resolve({}) = {} but the specification gives {}", c, units, g, want); panic!("witness found"); }
                Err(_) => { println!("WITNESS: {:?}.resolve({}) panics", c, units); panic!("witness found"); }
            }
        }
    }}}
}
