// Native witness search for the Verus unit c18_fee: the public fee API on real transactions (Script
// and Create) against the formulas of the property, over boundary values of witness limit, tip,
// fee limit, gas price, price factor, gas per byte and used gas.
use fuel_tx::{field::*, Chargeable, ConsensusParameters, FeeParameters, GasCosts, TransactionBuilder, TransactionFee, Finalizable, policies::PolicyType};
use fuel_types::canonical::Serialize;

fn ceil_div(a: u128, b: u128) -> u128 { if a % b == 0 { a / b } else { a / b + 1 } }
fn sat(x: u128) -> u128 { if x > u64::MAX as u128 { u64::MAX as u128 } else { x } }

fn check<T: Chargeable>(tx: &T, name: &str, extra_gas: u64, gc: &GasCosts, fee: &FeeParameters, price: u64, used: u64) {
    let min_gas = tx.min_gas(gc, fee) as u128;
    let max_gas = tx.max_gas(gc, fee) as u128;
    let tip = tx.policies().get(PolicyType::Tip).unwrap_or(0) as u128;
    let limit = tx.policies().get(PolicyType::MaxFee).unwrap_or(0) as u128;
    let wl = tx.policies().get(PolicyType::WitnessLimit).unwrap_or(0) as u128;
    let f = fee.gas_price_factor() as u128;
    let allowance = sat(wl.saturating_sub(tx.witnesses().size_dynamic() as u128) * fee.gas_per_byte() as u128);
    let want_max_gas = sat(sat(min_gas + allowance) + extra_gas as u128);
    let ctx = format!("{} price={} factor={} gas_per_byte={} tip={} limit={} witness_limit={} used={}", name, price, f, fee.gas_per_byte(), tip, limit, wl, used);
    if max_gas != want_max_gas { println!("WITNESS: max_gas = {} but the specification gives {} ({})", max_gas, want_max_gas, ctx); panic!("witness found"); }
    if min_gas > max_gas { println!("WITNESS: min_gas {} > max_gas {} ({})", min_gas, max_gas, ctx); panic!("witness found"); }
    let min_fee = tx.min_fee(gc, fee, price);
    let max_fee = tx.max_fee(gc, fee, price);
    if min_fee != ceil_div(min_gas * price as u128, f) + tip { println!("WITNESS: min_fee = {} ({})", min_fee, ctx); panic!("witness found"); }
    if max_fee != ceil_div(max_gas * price as u128, f) + tip { println!("WITNESS: max_fee = {} ({})", max_fee, ctx); panic!("witness found"); }
    if min_fee > max_fee { println!("WITNESS: min_fee {} > max_fee {} ({})", min_fee, max_fee, ctx); panic!("witness found"); }
    let used_fee = ceil_div(sat(min_gas + used as u128) * price as u128, f) + tip;
    let want_refund = if used_fee <= u64::MAX as u128 && used_fee <= limit { Some((limit - used_fee) as u64) } else { None };
    let refund = tx.refund_fee(gc, fee, used, price);
    if refund != want_refund { println!("WITNESS: refund_fee = {:?} but the specification gives {:?} ({})", refund, want_refund, ctx); panic!("witness found"); }
    let tf = TransactionFee::checked_from_tx(gc, fee, tx, price);
    let want_none = max_fee > u64::MAX as u128;
    if tf.is_none() != want_none { println!("WITNESS: checked_from_tx is_none = {} but max_fee = {} ({})", tf.is_none(), max_fee, ctx); panic!("witness found"); }
}

#[test]
fn witness() {
    let gc = GasCosts::default();
    let big = [0u64, 1, 7, 1000, 1 << 32, 1 << 62, (1 << 63) + 5, u64::MAX - 1, u64::MAX];
    let small = [0u64, 1, 3, 1000, u64::MAX];
    for &wl in &big { for &tip in &small { for &limit in &[0u64, 1_000_000, u64::MAX] { for &gpb in &[0u64, 1, 63, u64::MAX] {
        for &factor in &[1u64, 2, 92, u64::MAX] { for &price in &[0u64, 1, 91, 1 << 40, u64::MAX] { for &used in &[0u64, 1, 1 << 20, 1 << 62, u64::MAX] {
            let fee = FeeParameters::DEFAULT.with_gas_price_factor(factor).with_gas_per_byte(gpb);
            let script_limit = 1000u64;
            let script = TransactionBuilder::script(vec![1, 2, 3], vec![4, 5]).script_gas_limit(script_limit).witness_limit(wl).tip(tip).max_fee_limit(limit)
                .add_fee_input().finalize();
            check(&script, "Script", script_limit, &gc, &fee, price, used);
            let blob = TransactionBuilder::create(vec![0u8; 9].into(), Default::default(), vec![]).witness_limit(wl).tip(tip).max_fee_limit(limit)
                .add_fee_input().finalize();
            check(&blob, "Create", 0, &gc, &fee, price, used);
        }}}
    }}}}
}
