//! Kani harnesses for per-input / per-output validity rules (C19, scoped).
#![allow(clippy::all, unused_imports, dead_code)]
use crate::*;
use fuel_types::{Address, AssetId, Bytes32, ContractId, Nonce};

fn b32() -> [u8; 32] { kani::any() }
fn bytes(n: usize) -> Vec<u8> { let mut v = Vec::with_capacity(4); let mut i = 0; while i < n { v.push(0u8); i += 1; } v }
fn small() -> usize { let n: usize = kani::any(); kani::assume(n <= 3); n }
fn params() -> (PredicateParameters, u64, u64, u64) {
    let (pl, pd, md): (u64, u64, u64) = (kani::any(), kani::any(), kani::any());
    kani::assume(pl <= 4 && pd <= 4 && md <= 4);
    (PredicateParameters::V1(consensus_parameters::PredicateParametersV1 { max_predicate_length: pl, max_predicate_data_length: pd, max_message_data_length: md, max_gas_per_predicate: kani::any() }), pl, pd, md)
}
fn witnesses(n: usize) -> Vec<Witness> { let mut v = Vec::with_capacity(3); let mut i = 0; while i < n { v.push(Witness::default()); i += 1; } v }
fn ptr() -> TxPointer { TxPointer::default() }

//@ props=C19 tier=quick class=bounded(lengths<=3) timeout=1500 -- per-input rule, predicate coin: accepted iff the predicate is non-empty and within max_predicate_length and the predicate data within max_predicate_data_length (all length / limit combinations up to 3 / 4)
#[kani::proof]
#[kani::unwind(8)]
fn c19_input_rules_coin_predicate() {
    let (p, pl, pd, _md) = params();
    let (np, nd) = (small(), small());
    let kind: u8 = kani::any();
    kani::assume(kind < 3);
    let nm = small();
    let x = match kind {
        0 => Input::coin_predicate(UtxoId::default(), b32().into(), kani::any(), b32().into(), ptr(), kani::any(), bytes(np), bytes(nd)),
        1 => Input::message_coin_predicate(b32().into(), b32().into(), kani::any(), b32().into(), kani::any(), bytes(np), bytes(nd)),
        _ => Input::message_data_predicate(b32().into(), b32().into(), kani::any(), b32().into(), kani::any(), bytes(nm), bytes(np), bytes(nd)),
    };
    let idx: usize = kani::any();
    let r = x.check_without_signature(idx, &[], &[], &p);
    let pred_ok = np > 0 && np as u64 <= pl && nd as u64 <= pd;
    let ok = pred_ok && (kind != 2 || (nm > 0 && nm as u64 <= _md));
    if np == 0 { assert!(r == Err(ValidityError::InputPredicateEmpty { index: idx }), "C19 empty predicate is reported as InputPredicateEmpty at the input's index"); }
    assert!(r.is_ok() == ok, "C19 predicate input accepted exactly when predicate and predicate data lengths are within the rules");
}

//@ props=C19 tier=quick class=bounded(witnesses<=3) timeout=1500 -- per-input rule, signed coin and signed message: accepted iff the witness index is below the number of witnesses
#[kani::proof]
#[kani::unwind(8)]
fn c19_input_rules_signed() {
    let (p, _, _, _) = params();
    let nw = small();
    let ws = witnesses(nw);
    let wi: u16 = kani::any();
    let coin: bool = kani::any();
    let x = if coin { Input::coin_signed(UtxoId::default(), b32().into(), kani::any(), b32().into(), ptr(), wi) }
            else { Input::message_coin_signed(b32().into(), b32().into(), kani::any(), b32().into(), wi) };
    let r = x.check_without_signature(kani::any(), &[], &ws, &p);
    assert!(r.is_ok() == ((wi as usize) < nw), "C19 signed input accepted exactly when its witness exists");
}

//@ props=C19 tier=quick class=bounded(outputs<=3) timeout=1500 -- per-input rule, contract input: accepted iff exactly one contract output refers to its index (up to 3 outputs of symbolic kind / index); per-output rule: a contract output is accepted iff its input index names a contract input
#[kani::proof]
#[kani::unwind(8)]
fn c19_contract_input_output_pairing() {
    let (p, _, _, _) = params();
    let idx: usize = kani::any();
    kani::assume(idx <= 3);
    let n = small();
    let mut outs: Vec<Output> = Vec::with_capacity(3);
    let mut matching = 0usize;
    let mut i = 0;
    while i < n {
        let is_contract: bool = kani::any();
        let ii: u16 = kani::any();
        kani::assume(ii <= 4);
        if is_contract { outs.push(Output::contract(ii, Bytes32::zeroed(), Bytes32::zeroed())); if ii as usize == idx { matching += 1; } }
        else { outs.push(Output::coin(Address::zeroed(), 0, AssetId::zeroed())); }
        i += 1;
    }
    let x = Input::contract(UtxoId::default(), Bytes32::zeroed(), Bytes32::zeroed(), ptr(), ContractId::zeroed());
    let r = x.check_without_signature(idx, &outs, &[], &p);
    assert!(r.is_ok() == (matching == 1), "C19 contract input accepted exactly when exactly one contract output names its index");
    // per-output rule
    let ins_n = small();
    let mut ins: Vec<Input> = Vec::with_capacity(3);
    let mut kinds = [false; 3];
    let mut j = 0;
    while j < ins_n {
        let c: bool = kani::any();
        kinds[j] = c;
        if c { ins.push(Input::contract(UtxoId::default(), Bytes32::zeroed(), Bytes32::zeroed(), ptr(), ContractId::zeroed())); }
        else { ins.push(Input::coin_signed(UtxoId::default(), Address::zeroed(), 0, AssetId::zeroed(), ptr(), 0)); }
        j += 1;
    }
    let oi: u16 = kani::any();
    kani::assume(oi <= 4);
    let o = Output::contract(oi, Bytes32::zeroed(), Bytes32::zeroed());
    let want = (oi as usize) < ins_n && kinds[oi as usize];
    assert!(o.check(kani::any(), &ins).is_ok() == want, "C19 contract output accepted exactly when its input index names a contract input");
    assert!(Output::coin(Address::zeroed(), kani::any(), AssetId::zeroed()).check(kani::any(), &ins).is_ok(), "C19 coin outputs have no per-output rule");
}

//@ props=C19 tier=quick class=bounded(lengths<=3) timeout=1500 -- per-input rule, message data (signed): accepted iff the witness exists and the data is non-empty and within max_message_data_length
#[kani::proof]
#[kani::unwind(8)]
fn c19_input_rules_message_data() {
    let (p, _pl, _pd, md) = params();
    let nd = small();
    let nw = small();
    let ws = witnesses(nw);
    let wi: u16 = kani::any();
    let x = Input::message_data_signed(b32().into(), b32().into(), kani::any(), b32().into(), wi, bytes(nd));
    let r = x.check_without_signature(kani::any(), &[], &ws, &p);
    let ok = (wi as usize) < nw && nd > 0 && nd as u64 <= md;
    assert!(r.is_ok() == ok, "C19 message-data input accepted exactly when the witness exists and the data length is within the rules");
}
