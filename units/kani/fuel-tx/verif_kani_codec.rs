//! Kani harnesses for the canonical codecs of protocol types (child of the crate root of fuel-tx).
#![allow(clippy::all, unused_imports, dead_code)]
use crate::*;
use fuel_types::canonical::{Deserialize, Serialize};
use fuel_types::{Address, AssetId, BlockHeight, Bytes32, ContractId, Nonce};

const ALIGN: usize = 8;
/// The law of C01 (same text as in fuel-types' harness module; generic over the codec traits).
pub fn law<T: Serialize + Deserialize, const N: usize>(x: &T, buf: &mut [u8; N]) -> (T, usize) {
    let n = x.size();
    assert!(n % ALIGN == 0, "C01 encoded size is word aligned");
    assert!(n == x.size_static() + x.size_dynamic(), "C01 size = static + dynamic");
    assert!(n <= N);
    // a buffer of exactly size() bytes must suffice
    let mut out: &mut [u8] = &mut buf[..n];
    x.encode(&mut out).expect("C01 encode into a buffer of exactly size() bytes succeeds");
    assert!(out.is_empty(), "C01 encode writes exactly size() bytes");
    let mut inp: &[u8] = &buf[..n];
    let y = T::decode(&mut inp).expect("C01 decode of an encoding succeeds");
    assert!(inp.is_empty(), "C01 decode consumes exactly the encoded bytes");
    (y, n)
}
/// C02 for one type: arbitrary bytes never panic; Ok => consumed == size() and the value is a fixed point
pub fn arbitrary<T: Serialize + Deserialize + PartialEq, const L: usize, const N: usize>() {
    let raw: [u8; L] = kani::any();
    let len: usize = kani::any();
    kani::assume(len <= L);
    let mut inp: &[u8] = &raw[..len];
    if let Ok(v) = T::decode(&mut inp) {
        let consumed = len - inp.len();
        assert!(v.size() == consumed, "C02 encoded length of the decoded value = bytes consumed");
        let mut b2 = [0u8; N];
        let (w, _) = law(&v, &mut b2);
        assert!(w == v, "C02 encode-then-decode of a decoded value yields the same value");
    }
}
fn b32() -> [u8; 32] { kani::any() }

//@ props=C01,C02 tier=quick class=proved-fin -- UtxoId: round trip for every value (40 bytes), arbitrary bytes
#[kani::proof]
#[kani::unwind(40)]
fn c01_utxo_id() {
    let x = UtxoId::new(b32().into(), kani::any());
    let mut buf = [0u8; 48];
    let (y, n) = law(&x, &mut buf);
    assert!(y == x && n == 40, "C01 UtxoId round trip");
    arbitrary::<UtxoId, 48, 48>();
}

//@ props=C01,C02 tier=quick class=proved-fin -- TxPointer: round trip for every value (16 bytes), arbitrary bytes
#[kani::proof]
#[kani::unwind(40)]
fn c01_tx_pointer() {
    let h: u32 = kani::any();
    let x = TxPointer::new(h.into(), kani::any());
    let mut buf = [0u8; 24];
    let (y, n) = law(&x, &mut buf);
    assert!(y == x && n == 16, "C01 TxPointer round trip");
    arbitrary::<TxPointer, 24, 24>();
}

//@ props=C01,C02 tier=quick class=proved-fin -- StorageSlot: round trip for every value (64 bytes)
#[kani::proof]
#[kani::unwind(40)]
fn c01_storage_slot() {
    let x = StorageSlot::new(b32().into(), b32().into());
    let mut buf = [0u8; 72];
    let (y, n) = law(&x, &mut buf);
    assert!(y == x && n == 64, "C01 StorageSlot round trip");
}

fn any_output() -> Output {
    let k: u8 = kani::any();
    kani::assume(k < 5);
    match k {
        0 => Output::coin(b32().into(), kani::any(), b32().into()),
        1 => Output::contract(kani::any(), b32().into(), b32().into()),
        2 => Output::change(b32().into(), kani::any(), b32().into()),
        3 => Output::variable(b32().into(), kani::any(), b32().into()),
        _ => Output::contract_created(b32().into(), b32().into()),
    }
}
//@ props=C01 tier=quick class=proved-fin -- Output: every variant with every field value round trips; size() matches
#[kani::proof]
#[kani::unwind(40)]
fn c01_output() {
    let x = any_output();
    let mut buf = [0u8; 112];
    let (y, n) = law(&x, &mut buf);
    assert!(y == x, "C01 Output round trip");
}
//@ props=C02 tier=quick class=proved-fin timeout=1500 -- Output::decode on arbitrary bytes (up to 112): never panics, consumed == size, fixed point
#[kani::proof]
#[kani::unwind(40)]
fn c02_output_arbitrary() {
    arbitrary::<Output, 112, 112>();
}

//@ props=C01 tier=quick class=bounded(len<=9) -- Witness with data of every length 0..=9: round trip, size
#[kani::proof]
#[kani::unwind(40)]
fn c01_witness() {
    let src: [u8; 9] = kani::any();
    let n: usize = kani::any();
    kani::assume(n <= 9);
    let x = Witness::from(src[..n].to_vec());
    let mut buf = [0u8; 32];
    let (y, sz) = law(&x, &mut buf);
    assert!(sz == 8 + (n + 7) / 8 * 8);
    assert!(y.as_vec().len() == n);
    let mut i = 0;
    while i < n { assert!(y.as_vec()[i] == src[i], "C01 Witness round trip"); i += 1; }
}

//@ props=C01 tier=quick class=proved-fin timeout=1500 -- Input::CoinSigned: every field value round trips (field-wise comparison), size
#[kani::proof]
#[kani::unwind(40)]
fn c01_input_coin_signed() {
    let h: u32 = kani::any();
    let x = Input::coin_signed(UtxoId::new(b32().into(), kani::any()), b32().into(), kani::any(), b32().into(),
                               TxPointer::new(h.into(), kani::any()), kani::any());
    let mut buf = [0u8; 200];
    let (y, n) = law(&x, &mut buf);
    assert!(y.is_coin_signed(), "C01 CoinSigned decodes as CoinSigned");
    assert!(y.utxo_id() == x.utxo_id() && y.input_owner() == x.input_owner() && y.amount() == x.amount()
            && y.asset_id(&AssetId::zeroed()) == x.asset_id(&AssetId::zeroed()) && y.tx_pointer() == x.tx_pointer()
            && y.witness_index() == x.witness_index(), "C01 CoinSigned fields round trip");
}

//@ props=C01 tier=quick class=proved-fin timeout=1500 -- Input::Contract: every field value round trips
#[kani::proof]
#[kani::unwind(40)]
fn c01_input_contract() {
    let h: u32 = kani::any();
    let x = Input::contract(UtxoId::new(b32().into(), kani::any()), b32().into(), b32().into(),
                            TxPointer::new(h.into(), kani::any()), b32().into());
    let mut buf = [0u8; 200];
    let (y, n) = law(&x, &mut buf);
    assert!(y.is_contract(), "C01 Contract input decodes as Contract");
    assert!(y.utxo_id() == x.utxo_id() && y.balance_root() == x.balance_root() && y.state_root() == x.state_root()
            && y.tx_pointer() == x.tx_pointer() && y.contract_id() == x.contract_id(), "C01 Contract input fields round trip");
}

// ---- vector-bearing input kinds (bounded vector lengths; field-wise comparison) ------------------
fn vec_of(src: &[u8; 2], lo: usize, hi: usize) -> Vec<u8> {
    let n: usize = kani::any();
    kani::assume(n >= lo && n <= hi);
    src[..n].to_vec()
}
fn same(a: Option<&[u8]>, b: Option<&[u8]>) -> bool {
    match (a, b) { (Some(x), Some(y)) => x.len() == y.len() && (x.len() < 1 || x[0] == y[0]) && (x.len() < 2 || x[1] == y[1]), (None, None) => true, _ => false }
}
fn any_tx_pointer() -> TxPointer { let h: u32 = kani::any(); TxPointer::new(h.into(), kani::any()) }

//@ props=C01 tier=quick class=bounded(predicate=1,data=0) timeout=1800 -- Input::CoinPredicate with a one-byte predicate (canonical shape, symbolic contents): round trip of every field
#[kani::proof]
#[kani::unwind(40)]
fn c01_input_coin_predicate() {
    let p: u8 = kani::any();
    let x = Input::coin_predicate(UtxoId::new(b32().into(), kani::any()), b32().into(), kani::any(), b32().into(), any_tx_pointer(),
                                  kani::any(), vec![p], Vec::new());
    let mut buf = [0u8; 232];
    let (y, _n) = law(&x, &mut buf);
    assert!(y.is_coin_predicate(), "C01 CoinPredicate with a non-empty predicate decodes as CoinPredicate");
    assert!(y.utxo_id() == x.utxo_id() && y.input_owner() == x.input_owner() && y.amount() == x.amount() && y.tx_pointer() == x.tx_pointer()
            && y.predicate_gas_used() == x.predicate_gas_used(), "C01 CoinPredicate fixed fields");
    assert!(same(y.input_predicate(), x.input_predicate()) && same(y.input_predicate_data(), x.input_predicate_data()), "C01 CoinPredicate vectors");
}

//@ props=C01 tier=quick class=proved-fin timeout=1800 -- Input::MessageCoinSigned: every field value round trips
#[kani::proof]
#[kani::unwind(40)]
fn c01_input_message_coin_signed() {
    let x = Input::message_coin_signed(b32().into(), b32().into(), kani::any(), b32().into(), kani::any());
    let mut buf = [0u8; 200];
    let (y, _n) = law(&x, &mut buf);
    assert!(y.is_message_coin_signed(), "C01 MessageCoinSigned decodes as MessageCoinSigned");
    assert!(y.sender() == x.sender() && y.recipient() == x.recipient() && y.amount() == x.amount() && y.nonce() == x.nonce()
            && y.witness_index() == x.witness_index(), "C01 MessageCoinSigned fields");
}

//@ props=C01 tier=thorough class=bounded(data<=2) timeout=1800 -- Input::MessageDataSigned with non-empty data: round trip
#[kani::proof]
#[kani::unwind(40)]
fn c01_input_message_data_signed() {
    let d: [u8; 2] = kani::any();
    let x = Input::message_data_signed(b32().into(), b32().into(), kani::any(), b32().into(), kani::any(), vec_of(&d, 1, 2));
    let mut buf = [0u8; 208];
    let (y, _n) = law(&x, &mut buf);
    assert!(y.is_message_data_signed(), "C01 MessageDataSigned with non-empty data decodes as MessageDataSigned");
    assert!(y.sender() == x.sender() && y.recipient() == x.recipient() && y.amount() == x.amount() && y.nonce() == x.nonce()
            && y.witness_index() == x.witness_index() && same(y.input_data(), x.input_data()), "C01 MessageDataSigned fields");
}

// ---- KNOWN FINDING F1 (DESIGN.md §4): an input whose kind-defining vector is empty decodes as the
// sibling kind, because the wire format distinguishes the kinds only by those lengths.  Each harness
// states the property for one such shape and FAILS on the current format; the failures are listed in
// known_findings.json and reported as KNOWN-FINDING, not as violations.
//@ props=C01 tier=quick class=proved-fin timeout=1800 -- F1: CoinPredicate with an EMPTY predicate must decode as CoinPredicate (known finding: decodes as CoinSigned)
#[kani::proof]
#[kani::unwind(40)]
fn c01_f1_coin_predicate_empty_predicate() {
    let x = Input::coin_predicate(UtxoId::new(b32().into(), kani::any()), b32().into(), kani::any(), b32().into(), any_tx_pointer(),
                                  kani::any(), Vec::new(), Vec::new());
    let mut buf = [0u8; 232];
    let (y, _n) = law(&x, &mut buf);
    assert!(y.is_coin_predicate(), "F1 CoinPredicate with empty predicate decodes as the same kind");
}
//@ props=C01 tier=quick class=proved-fin timeout=1800 -- F1: MessageCoinPredicate with an EMPTY predicate (known finding: decodes as MessageCoinSigned)
#[kani::proof]
#[kani::unwind(40)]
fn c01_f1_message_coin_predicate_empty_predicate() {
    let x = Input::message_coin_predicate(b32().into(), b32().into(), kani::any(), b32().into(), kani::any(), Vec::new(), Vec::new());
    let mut buf = [0u8; 208];
    let (y, _n) = law(&x, &mut buf);
    assert!(y.is_message_coin_predicate(), "F1 MessageCoinPredicate with empty predicate decodes as the same kind");
}
//@ props=C01 tier=quick class=proved-fin timeout=1800 -- F1: MessageDataSigned with EMPTY data (known finding: decodes as MessageCoinSigned)
#[kani::proof]
#[kani::unwind(40)]
fn c01_f1_message_data_signed_empty_data() {
    let x = Input::message_data_signed(b32().into(), b32().into(), kani::any(), b32().into(), kani::any(), Vec::new());
    let mut buf = [0u8; 208];
    let (y, _n) = law(&x, &mut buf);
    assert!(y.is_message_data_signed(), "F1 MessageDataSigned with empty data decodes as the same kind");
}
//@ props=C01 tier=thorough class=proved-fin timeout=2400 -- F1: MessageDataPredicate with EMPTY data (known finding: decodes as MessageCoinPredicate)
#[kani::proof]
#[kani::unwind(40)]
fn c01_f1_message_data_predicate_empty_data() {
    let p: u8 = kani::any();
    let x = Input::message_data_predicate(b32().into(), b32().into(), kani::any(), b32().into(), kani::any(), Vec::new(), vec![p], Vec::new());
    let mut buf = [0u8; 216];
    let (y, _n) = law(&x, &mut buf);
    assert!(y.is_message_data_predicate(), "F1 MessageDataPredicate with empty data decodes as the same kind");
}

// ---------------------------------------------------------------------------------------------
// C03 (frame part): prepare_sign zeroes exactly the malleable fields and leaves every other field
// unchanged, so two values differing only in malleable fields have equal prepared images and a
// difference in any other field survives.
// ---------------------------------------------------------------------------------------------
//@ props=C03 tier=quick class=proved-fin timeout=1500 -- Output::prepare_sign, every variant and value: Contract roots, Change amount, Variable to/amount/asset become zero; every other field (and Coin, ContractCreated entirely) unchanged
#[kani::proof]
#[kani::unwind(40)]
fn c03_output_prepare_sign() {
    let x = any_output();
    let mut y = x.clone();
    y.prepare_sign();
    let z32 = [0u8; 32];
    match (x, y) {
        (Output::Coin { to, amount, asset_id }, Output::Coin { to: t2, amount: a2, asset_id: s2 }) =>
            assert!(to == t2 && amount == a2 && asset_id == s2, "C03 coin output is not malleable"),
        (Output::Contract(c), Output::Contract(d)) => {
            assert!(d.input_index == c.input_index, "C03 contract output keeps its input index");
            assert!(*d.balance_root == z32 && *d.state_root == z32, "C03 contract output roots are zeroed");
        }
        (Output::Change { to, amount: _, asset_id }, Output::Change { to: t2, amount: a2, asset_id: s2 }) =>
            assert!(to == t2 && asset_id == s2 && a2 == 0, "C03 change output: only the amount is zeroed"),
        (Output::Variable { .. }, Output::Variable { to: t2, amount: a2, asset_id: s2 }) =>
            assert!(*t2 == z32 && a2 == 0 && *s2 == z32, "C03 variable output: recipient, amount and asset are zeroed"),
        (Output::ContractCreated { contract_id, state_root }, Output::ContractCreated { contract_id: c2, state_root: r2 }) =>
            assert!(contract_id == c2 && state_root == r2, "C03 contract-created output is not malleable"),
        _ => assert!(false, "C03 prepare_sign never changes the output kind"),
    }
}

//@ props=C03 tier=quick class=proved-fin timeout=1500 -- Input::prepare_sign for CoinSigned, Contract, MessageCoinSigned (all field values): tx pointer (coin), utxo id / roots / tx pointer (contract) zeroed; every other field unchanged
#[kani::proof]
#[kani::unwind(40)]
fn c03_input_prepare_sign_fixed_kinds() {
    let k: u8 = kani::any();
    kani::assume(k < 3);
    let zero_ptr = TxPointer::default();
    if k == 0 {
        let x = Input::coin_signed(UtxoId::new(b32().into(), kani::any()), b32().into(), kani::any(), b32().into(), any_tx_pointer(), kani::any());
        let mut y = x.clone();
        y.prepare_sign();
        assert!(y.is_coin_signed() && y.tx_pointer() == Some(&zero_ptr), "C03 coin tx pointer is zeroed");
        assert!(y.utxo_id() == x.utxo_id() && y.input_owner() == x.input_owner() && y.amount() == x.amount()
                && y.asset_id(&AssetId::zeroed()) == x.asset_id(&AssetId::zeroed()) && y.witness_index() == x.witness_index(), "C03 every other coin field is unchanged");
    } else if k == 1 {
        let x = Input::contract(UtxoId::new(b32().into(), kani::any()), b32().into(), b32().into(), any_tx_pointer(), b32().into());
        let mut y = x.clone();
        y.prepare_sign();
        assert!(y.is_contract() && y.contract_id() == x.contract_id(), "C03 contract id is not malleable");
        assert!(y.utxo_id() == Some(&UtxoId::default()) && y.balance_root() == Some(&Bytes32::zeroed()) && y.state_root() == Some(&Bytes32::zeroed())
                && y.tx_pointer() == Some(&zero_ptr), "C03 contract input: utxo id, roots and tx pointer are zeroed");
    } else {
        let x = Input::message_coin_signed(b32().into(), b32().into(), kani::any(), b32().into(), kani::any());
        let mut y = x.clone();
        y.prepare_sign();
        assert!(y.is_message_coin_signed() && y.sender() == x.sender() && y.recipient() == x.recipient() && y.amount() == x.amount()
                && y.nonce() == x.nonce() && y.witness_index() == x.witness_index(), "C03 signed message input is not malleable");
    }
}

//@ props=C03 tier=quick class=bounded(predicate=1) timeout=1500 -- Input::prepare_sign for CoinPredicate: tx pointer and predicate gas used zeroed; owner, amount, asset, utxo id, predicate and predicate data unchanged
#[kani::proof]
#[kani::unwind(40)]
fn c03_input_prepare_sign_coin_predicate() {
    let p: u8 = kani::any();
    let x = Input::coin_predicate(UtxoId::new(b32().into(), kani::any()), b32().into(), kani::any(), b32().into(), any_tx_pointer(),
                                  kani::any(), vec![p], Vec::new());
    let mut y = x.clone();
    y.prepare_sign();
    assert!(y.is_coin_predicate() && y.tx_pointer() == Some(&TxPointer::default()) && y.predicate_gas_used() == Some(0), "C03 coin predicate: tx pointer and predicate gas used are zeroed");
    assert!(y.utxo_id() == x.utxo_id() && y.input_owner() == x.input_owner() && y.amount() == x.amount()
            && same(y.input_predicate(), x.input_predicate()) && same(y.input_predicate_data(), x.input_predicate_data()), "C03 every other field is unchanged");
}

// ---------------------------------------------------------------------------------------------
// C04 (repr tables): every offset reported for an input / output of a given kind points at exactly
// the canonical bytes of that field inside the item's own encoding.
// ---------------------------------------------------------------------------------------------
fn at32(buf: &[u8], off: Option<usize>, want: &[u8; 32]) -> bool {
    match off { Some(o) => { let mut ok = true; let mut i = 0; while i < 32 { if buf[o + i] != want[i] { ok = false; } i += 1; } ok } None => false }
}

//@ props=C04 tier=quick class=proved-fin timeout=1500 -- OutputRepr offset table: for every output variant and value, to / asset id / contract roots / contract id / state root offsets locate the field's bytes in the encoding, and offsets of fields the kind does not have are None
#[kani::proof]
#[kani::unwind(40)]
fn c04_output_offsets() {
    let x = any_output();
    let mut buf = [0u8; 112];
    let n = x.size();
    let mut out: &mut [u8] = &mut buf[..n];
    x.encode(&mut out).unwrap();
    let r = x.repr();
    match &x {
        Output::Coin { to, asset_id, .. } | Output::Change { to, asset_id, .. } | Output::Variable { to, asset_id, .. } => {
            assert!(at32(&buf, r.to_offset(), &**to), "C04 output `to` offset");
            assert!(at32(&buf, r.asset_id_offset(), &**asset_id), "C04 output asset id offset");
            assert!(r.contract_balance_root_offset().is_none() && r.contract_state_root_offset().is_none() && r.contract_id_offset().is_none());
        }
        Output::Contract(c) => {
            assert!(at32(&buf, r.contract_balance_root_offset(), &*c.balance_root), "C04 contract output balance root offset");
            assert!(at32(&buf, r.contract_state_root_offset(), &*c.state_root), "C04 contract output state root offset");
            assert!(r.to_offset().is_none() && r.asset_id_offset().is_none());
        }
        Output::ContractCreated { contract_id, state_root } => {
            assert!(at32(&buf, r.contract_id_offset(), &**contract_id), "C04 contract-created id offset");
            assert!(at32(&buf, r.contract_created_state_root_offset(), &**state_root), "C04 contract-created state root offset");
            assert!(r.to_offset().is_none());
        }
    }
}

//@ props=C04 tier=quick class=proved-fin timeout=1800 -- InputRepr offset table for CoinSigned, Contract, MessageCoinSigned (every value): utxo id, owner, asset id, tx pointer, roots, contract id, sender, recipient, nonce offsets locate the field's bytes
#[kani::proof]
#[kani::unwind(48)]
fn c04_input_offsets_fixed_kinds() {
    let k: u8 = kani::any();
    kani::assume(k < 3);
    let mut buf = [0u8; 200];
    if k == 0 {
        let (tx, owner, asset): ([u8; 32], [u8; 32], [u8; 32]) = (kani::any(), kani::any(), kani::any());
        let x = Input::coin_signed(UtxoId::new(tx.into(), kani::any()), owner.into(), kani::any(), asset.into(), any_tx_pointer(), kani::any());
        let n = x.size(); let mut out: &mut [u8] = &mut buf[..n]; x.encode(&mut out).unwrap();
        let r = x.repr();
        assert!(at32(&buf, r.utxo_id_offset(), &tx), "C04 coin utxo id offset (tx id bytes)");
        assert!(at32(&buf, r.owner_offset(), &owner), "C04 coin owner offset");
        assert!(at32(&buf, r.asset_id_offset(), &asset), "C04 coin asset id offset");
        let tp = r.tx_pointer_offset().unwrap();
        let mut pb = [0u8; 16]; let mut o: &mut [u8] = &mut pb[..]; x.tx_pointer().unwrap().encode(&mut o).unwrap();
        let mut i = 0; while i < 16 { assert!(buf[tp + i] == pb[i], "C04 coin tx pointer offset"); i += 1; }
        assert!(r.contract_id_offset().is_none() && r.message_sender_offset().is_none());
    } else if k == 1 {
        let (tx, br, sr, cid): ([u8; 32], [u8; 32], [u8; 32], [u8; 32]) = (kani::any(), kani::any(), kani::any(), kani::any());
        let x = Input::contract(UtxoId::new(tx.into(), kani::any()), br.into(), sr.into(), any_tx_pointer(), cid.into());
        let n = x.size(); let mut out: &mut [u8] = &mut buf[..n]; x.encode(&mut out).unwrap();
        let r = x.repr();
        assert!(at32(&buf, r.utxo_id_offset(), &tx), "C04 contract input utxo id offset");
        assert!(at32(&buf, r.contract_balance_root_offset(), &br), "C04 contract input balance root offset");
        assert!(at32(&buf, r.contract_state_root_offset(), &sr), "C04 contract input state root offset");
        assert!(at32(&buf, r.contract_id_offset(), &cid), "C04 contract input contract id offset");
        let tp = r.tx_pointer_offset().unwrap();
        let mut pb = [0u8; 16]; let mut o: &mut [u8] = &mut pb[..]; x.tx_pointer().unwrap().encode(&mut o).unwrap();
        let mut i = 0; while i < 16 { assert!(buf[tp + i] == pb[i], "C04 contract input tx pointer offset"); i += 1; }
        assert!(r.owner_offset().is_none() && r.asset_id_offset().is_none());
    } else {
        let (s, rc, nn): ([u8; 32], [u8; 32], [u8; 32]) = (kani::any(), kani::any(), kani::any());
        let x = Input::message_coin_signed(s.into(), rc.into(), kani::any(), nn.into(), kani::any());
        let n = x.size(); let mut out: &mut [u8] = &mut buf[..n]; x.encode(&mut out).unwrap();
        let r = x.repr();
        assert!(at32(&buf, r.message_sender_offset(), &s), "C04 message sender offset");
        assert!(at32(&buf, r.message_recipient_offset(), &rc), "C04 message recipient offset");
        assert!(at32(&buf, r.message_nonce_offset(), &nn), "C04 message nonce offset");
        assert!(r.utxo_id_offset().is_none() && r.contract_id_offset().is_none());
    }
}

//@ props=C03 tier=quick class=bounded(vectors=1) timeout=1500 -- Input::prepare_sign for the message predicate kinds (MessageCoinPredicate, MessageDataPredicate; one-byte vectors): predicate gas used zeroed, every other field unchanged
#[kani::proof]
#[kani::unwind(40)]
fn c03_input_prepare_sign_message_predicates() {
    let with_data: bool = kani::any();
    let (p, d): (u8, u8) = (kani::any(), kani::any());
    let x = if with_data {
        Input::message_data_predicate(b32().into(), b32().into(), kani::any(), b32().into(), kani::any(), vec![d], vec![p], Vec::new())
    } else {
        Input::message_coin_predicate(b32().into(), b32().into(), kani::any(), b32().into(), kani::any(), vec![p], Vec::new())
    };
    let mut y = x.clone();
    y.prepare_sign();
    assert!(y.predicate_gas_used() == Some(0), "C03 message predicate inputs: predicate gas used is zeroed");
    assert!(y.is_message_data_predicate() == with_data && y.is_message_coin_predicate() == !with_data);
    assert!(y.sender() == x.sender() && y.recipient() == x.recipient() && y.amount() == x.amount() && y.nonce() == x.nonce()
            && same(y.input_data(), x.input_data()) && same(y.input_predicate(), x.input_predicate()) && same(y.input_predicate_data(), x.input_predicate_data()),
            "C03 every other field is unchanged");
}
