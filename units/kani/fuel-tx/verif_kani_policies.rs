//! Kani harnesses for `Policies` (child of `transaction::policies`: private fields).
#![allow(clippy::all, unused_imports, dead_code)]
use super::*;
use crate::verif_kani_codec::law;

fn any_policies() -> Policies {
    let bits: u32 = kani::any();
    let values: [Word; POLICIES_NUMBER] = kani::any();
    Policies { bits: PoliciesBits::from_bits_retain(bits), values }
}

//@ props=C19,C01 tier=quick class=proved-fin -- Policies::is_valid for every (bits, values): iff bits are known, values of unset bits are zero, maturity/expiration/owner fit 32 bits
#[kani::proof]
#[kani::unwind(50)]
fn c19_policies_is_valid() {
    let p = any_policies();
    let bits = p.bits.bits();
    let mut spec = bits < 64;
    let mut i = 0;
    while i < 6 { if bits & (1 << i) == 0 && p.values[i] != 0 { spec = false; } i += 1; }
    // index order: Tip, WitnessLimit, Maturity, MaxFee, Expiration, Owner
    if bits & 4 != 0 && p.values[2] > u32::MAX as u64 { spec = false; }
    if bits & 16 != 0 && p.values[4] > u32::MAX as u64 { spec = false; }
    if bits & 32 != 0 && p.values[5] > u32::MAX as u64 { spec = false; }
    assert!(p.is_valid() == spec, "O-C19.1 Policies::is_valid");
}

//@ props=C01 tier=quick class=proved-fin -- Policies: all 64 masks x arbitrary values (valid policy sets): size = 8 + 8*popcount, round trip
#[kani::proof]
#[kani::unwind(50)]
fn c01_policies() {
    let p = any_policies();
    kani::assume(p.is_valid());
    kani::cover!(p.bits.bits() == 63, "precondition reachable for the full mask");
    kani::cover!(p.bits.bits() == 0, "precondition reachable for the empty mask");
    let mut buf = [0u8; 64];
    let (q, n) = law(&p, &mut buf);
    assert!(n == 8 + 8 * p.bits.bits().count_ones() as usize, "C01 Policies size");
    assert!(q == p, "C01 Policies round trip");
}

//@ props=C02 tier=quick class=proved-fin -- Policies::decode on arbitrary bytes (up to 64): never panics; Ok => consumed == size, fixed point
#[kani::proof]
#[kani::unwind(50)]
fn c02_policies_arbitrary() {
    let raw: [u8; 64] = kani::any();
    let len: usize = kani::any();
    kani::assume(len <= 64);
    let mut inp: &[u8] = &raw[..len];
    if let Ok(v) = Policies::decode(&mut inp) {
        let consumed = len - inp.len();
        assert!(v.size() == consumed, "C02 consumed = size");
        // (not asserted: is_valid().  decode() bounds maturity and expiration but not owner, so a decoded set with
        //  owner > u32::MAX is not is_valid(); C02 does not require it - the transaction checker rejects it later.)
        let mut b2 = [0u8; 64];
        let (w, _) = law(&v, &mut b2);
        assert!(w == v, "C02 fixed point");
    }
}
