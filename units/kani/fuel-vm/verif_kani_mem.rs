//! Kani harnesses for `interpreter::memory` (child module: private fields of MemoryInstance and
//! OwnershipRegisters).
#![allow(clippy::all, unused_imports, dead_code)]
use super::*;
use crate::consts::*;
use fuel_asm::PanicReason;

//@ props=C24 tier=quick class=proved-fin -- O-C24.1 ownership predicate for all (ssp,sp,hp,prev_hp,start,end) under the register invariant: a non-empty range is owned iff it lies inside [ssp,sp) or inside [hp,prev_hp); empty-range rule; verify_ownership = MemoryOwnership otherwise
#[kani::proof]
fn c24_ownership() {
    let (ssp, sp, hp, prev_hp): (u64, u64, u64, u64) = (kani::any(), kani::any(), kani::any(), kani::any());
    kani::assume(ssp <= sp && sp <= hp && hp <= prev_hp && prev_hp <= VM_MAX_RAM);
    let (s, e): (usize, usize) = (kani::any(), kani::any());
    kani::assume(s <= e && e <= MEM_SIZE);
    let o = OwnershipRegisters { sp, ssp, hp, prev_hp };
    let r = MemoryRange(s..e);
    let (s, e) = (s as u64, e as u64);
    let owned = o.verify_ownership(&r);
    assert!(owned.is_ok() || owned == Err(PanicReason::MemoryOwnership), "O-C24.1 only MemoryOwnership is reported");
    assert!(owned.is_ok() == o.has_ownership_range(&(s..e)));
    if s < e {
        let spec = (ssp <= s && e <= sp) || (hp <= s && e <= prev_hp);
        assert!(owned.is_ok() == spec, "O-C24.1 non-empty range owned iff inside the stack region [ssp,sp) or the heap region [hp,prev_hp)");
    } else {
        // empty ranges: owned exactly at positions inside or at the edge of an owned region
        let spec = s == ssp || (ssp <= s && s < sp) || s == hp || (hp <= s && s <= prev_hp && hp != prev_hp);
        assert!(owned.is_ok() == spec, "O-C24.1 empty-range rule");
    }
    // stack-only ownership (LDC, call frames): no heap byte is ever owned
    let so = OwnershipRegisters::only_allow_stack_write(sp, ssp, hp);
    if s < e && s >= hp { assert!(so.verify_ownership(&r).is_err(), "O-C24.1 only_allow_stack_write owns no heap"); }
    if s < e { assert!(so.verify_ownership(&r).is_ok() == (ssp <= s && e <= sp), "O-C24.1 only_allow_stack_write owns exactly the stack region"); }
}

fn mem_with(stack_len: u64, heap_amount: u64) -> MemoryInstance {
    let mut m = MemoryInstance::new();
    m.grow_stack(stack_len).unwrap();
    let sp: u64 = stack_len;
    let mut hp: u64 = VM_MAX_RAM;
    m.grow_heap_by(crate::constraints::reg_key::Reg::new(&sp), crate::constraints::reg_key::RegMut::new(&mut hp), heap_amount).unwrap();
    m
}

//@ props=C23,C24 tier=quick class=bounded(stack=8,heap=8) -- write_bytes at every address with symbolic ownership registers: Ok iff the 4 bytes are accessible and owned; then exactly those bytes change to the data; otherwise memory is bit-for-bit unchanged (regions of 8 bytes, all 2^64 addresses)
#[kani::proof]
#[kani::unwind(300)]
fn c23_write_bytes_frame() {
    let mut m = mem_with(8, 8);
    let hp0 = VM_MAX_RAM - 8;
    // symbolic initial contents
    let init: [u8; 16] = kani::any();
    m.stack[..8].copy_from_slice(&init[..8]);
    let ho = m.heap.len() - 8;
    m.heap[ho..].copy_from_slice(&init[8..]);
    let before = m.clone();
    let (ssp, sp): (u64, u64) = (kani::any(), kani::any());
    kani::assume(ssp <= sp && sp <= 8);
    let owner = OwnershipRegisters { sp, ssp, hp: hp0, prev_hp: VM_MAX_RAM };
    let addr: u64 = kani::any();
    let data: [u8; 4] = kani::any();
    let r = m.write_bytes(owner, addr, data);
    let end = addr.saturating_add(4);
    let accessible = addr <= VM_MAX_RAM - 4 && (end <= 8 || addr >= hp0);
    let owned = (ssp <= addr && end <= sp) || (hp0 <= addr && end <= VM_MAX_RAM);
    match r {
        Ok(()) => {
            assert!(accessible && owned, "C24 a write succeeds only inside accessible memory the program owns");
            let mut a: u64 = 0;
            while a < 8 {
                let inside = a >= addr && a < end;
                let want = if inside { data[(a - addr) as usize] } else { init[a as usize] };
                assert!(m.stack[a as usize] == want, "C23 stack byte after write");
                let ga = hp0 + a;
                let inside = ga >= addr && ga < end;
                let want = if inside { data[(ga - addr) as usize] } else { init[8 + a as usize] };
                assert!(m.heap[ho + a as usize] == want, "C23 heap byte after write");
                a += 1;
            }
        }
        Err(e) => {
            assert!(!(accessible && owned), "C24 accessible owned write succeeds");
            if addr > VM_MAX_RAM - 4 { assert!(e == PanicReason::MemoryOverflow, "C24 beyond memory => MemoryOverflow"); }
            else if !accessible { assert!(e == PanicReason::UninitalizedMemoryAccess, "C24 gap / spanning both regions => UninitalizedMemoryAccess"); }
            else { assert!(e == PanicReason::MemoryOwnership, "C24 unowned => MemoryOwnership"); }
            assert!(m.stack == before.stack && m.heap == before.heap && m.hp == before.hp, "C24 refused write leaves memory unchanged");
        }
    }
    core::mem::forget(m); core::mem::forget(before);
}

// (heap reuse after reset is proved unbounded in the Verus unit c23_memory: grow_heap_by zeroes every newly
// allocated byte whatever the buffer held; a Kani twin exhausted 24 GB on the 256-byte minimum allocation.)
