//! Kani harnesses for `interpreter::memory` (child module: private fields of MemoryInstance and
//! OwnershipRegisters).
#![allow(clippy::all, unused_imports, dead_code)]
use super::*;
use crate::consts::*;
use fuel_asm::PanicReason;

//@ props=C24 tier=quick class=proved-fin -- O-C24.1 ownership predicate for all (ssp,sp,hp,prev_hp,start,end) under the register invariant: a non-empty range is owned iff it lies inside [ssp,sp) or inside [hp,prev_hp); empty-range rule; verify_ownership = MemoryOwnership otherwise
#[kani::proof]
fn c24_ownership() {
    let (ssp, sp, hp, prev_hp): (u64, u64, u64, u64) = (kani::any(), kani::any(), kani::any(), kani::any());
    kani::assume(ssp <= sp && sp <= hp && hp <= prev_hp && prev_hp <= VM_MAX_RAM);
    let (s, e): (usize, usize) = (kani::any(), kani::any());
    kani::assume(s <= e && e <= MEM_SIZE);
    let o = OwnershipRegisters { sp, ssp, hp, prev_hp };
    let r = MemoryRange(s..e);
    let (s, e) = (s as u64, e as u64);
    let owned = o.verify_ownership(&r);
    assert!(owned.is_ok() || owned == Err(PanicReason::MemoryOwnership), "O-C24.1 only MemoryOwnership is reported");
    assert!(owned.is_ok() == o.has_ownership_range(&(s..e)));
    if s < e {
        let spec = (ssp <= s && e <= sp) || (hp <= s && e <= prev_hp);
        assert!(owned.is_ok() == spec, "O-C24.1 non-empty range owned iff inside the stack region [ssp,sp) or the heap region [hp,prev_hp)");
    } else {
        // empty ranges: owned exactly at positions inside or at the edge of an owned region
        let spec = s == ssp || (ssp <= s && s < sp) || s == hp || (hp <= s && s <= prev_hp && hp != prev_hp);
        assert!(owned.is_ok() == spec, "O-C24.1 empty-range rule");
    }
    // stack-only ownership (LDC, call frames): no heap byte is ever owned
    let so = OwnershipRegisters::only_allow_stack_write(sp, ssp, hp);
    if s < e && s >= hp { assert!(so.verify_ownership(&r).is_err(), "O-C24.1 only_allow_stack_write owns no heap"); }
    if s < e { assert!(so.verify_ownership(&r).is_ok() == (ssp <= s && e <= sp), "O-C24.1 only_allow_stack_write owns exactly the stack region"); }
}

fn mem_with(stack_len: u64, heap_amount: u64) -> MemoryInstance {
    let mut m = MemoryInstance::new();
    m.grow_stack(stack_len).unwrap();
    let sp: u64 = stack_len;
    let mut hp: u64 = VM_MAX_RAM;
    m.grow_heap_by(crate::constraints::reg_key::Reg::new(&sp), crate::constraints::reg_key::RegMut::new(&mut hp), heap_amount).unwrap();
    m
}

//@ props=C23,C24 tier=quick class=bounded(stack=8,heap=8) -- write_bytes at every address with symbolic ownership registers: Ok iff the 4 bytes are accessible and owned; then exactly those bytes change to the data; otherwise memory is bit-for-bit unchanged (regions of 8 bytes, all 2^64 addresses)
#[kani::proof]
#[kani::unwind(300)]
fn c23_write_bytes_frame() {
    let mut m = mem_with(8, 8);
    let hp0 = VM_MAX_RAM - 8;
    // symbolic initial contents
    let init: [u8; 16] = kani::any();
    m.stack[..8].copy_from_slice(&init[..8]);
    let ho = m.heap.len() - 8;
    m.heap[ho..].copy_from_slice(&init[8..]);
    let before = m.clone();
    let (ssp, sp): (u64, u64) = (kani::any(), kani::any());
    kani::assume(ssp <= sp && sp <= 8);
    let owner = OwnershipRegisters { sp, ssp, hp: hp0, prev_hp: VM_MAX_RAM };
    let addr: u64 = kani::any();
    let data: [u8; 4] = kani::any();
    let r = m.write_bytes(owner, addr, data);
    let end = addr.saturating_add(4);
    let accessible = addr <= VM_MAX_RAM - 4 && (end <= 8 || addr >= hp0);
    let owned = (ssp <= addr && end <= sp) || (hp0 <= addr && end <= VM_MAX_RAM);
    match r {
        Ok(()) => {
            assert!(accessible && owned, "C24 a write succeeds only inside accessible memory the program owns");
            let mut a: u64 = 0;
            while a < 8 {
                let inside = a >= addr && a < end;
                let want = if inside { data[(a - addr) as usize] } else { init[a as usize] };
                assert!(m.stack[a as usize] == want, "C23 stack byte after write");
                let ga = hp0 + a;
                let inside = ga >= addr && ga < end;
                let want = if inside { data[(ga - addr) as usize] } else { init[8 + a as usize] };
                assert!(m.heap[ho + a as usize] == want, "C23 heap byte after write");
                a += 1;
            }
        }
        Err(e) => {
            assert!(!(accessible && owned), "C24 accessible owned write succeeds");
            if addr > VM_MAX_RAM - 4 { assert!(e == PanicReason::MemoryOverflow, "C24 beyond memory => MemoryOverflow"); }
            else if !accessible { assert!(e == PanicReason::UninitalizedMemoryAccess, "C24 gap / spanning both regions => UninitalizedMemoryAccess"); }
            else { assert!(e == PanicReason::MemoryOwnership, "C24 unowned => MemoryOwnership"); }
            assert!(m.stack == before.stack && m.heap == before.heap && m.hp == before.hp, "C24 refused write leaves memory unchanged");
        }
    }
    core::mem::forget(m); core::mem::forget(before);
}

// (heap reuse after reset is proved unbounded in the Verus unit c23_memory: grow_heap_by zeroes every newly
// allocated byte whatever the buffer held; a Kani twin exhausted 24 GB on the 256-byte minimum allocation.)

//@ props=C23,C31 tier=quick class=bounded(allocs=256,8,504) timeout=1500 -- instance reuse across a reallocation: allocate 256 bytes, dirty one (symbolic) byte, reset(), allocate 8, then 504 more (forces the buffer to be reallocated): every newly allocated byte (symbolic address) reads as zero
#[kani::proof]
#[kani::unwind(1030)]
fn c23_heap_reuse_realloc_reads_zero() {
    let mut m = MemoryInstance::new();
    let sp: u64 = 0;
    let mut hp: u64 = VM_MAX_RAM;
    m.grow_heap_by(crate::constraints::reg_key::Reg::new(&sp), crate::constraints::reg_key::RegMut::new(&mut hp), 256).unwrap();
    let off: usize = kani::any();
    kani::assume(off < 256);
    let d: u8 = kani::any();
    let hl = m.heap.len();
    m.heap[hl - 256 + off] = d;
    m.reset();
    hp = VM_MAX_RAM;
    m.grow_heap_by(crate::constraints::reg_key::Reg::new(&sp), crate::constraints::reg_key::RegMut::new(&mut hp), 8).unwrap();
    m.grow_heap_by(crate::constraints::reg_key::Reg::new(&sp), crate::constraints::reg_key::RegMut::new(&mut hp), 504).unwrap();
    assert!(hp == VM_MAX_RAM - 512);
    let a: u64 = kani::any();
    kani::assume(a >= hp && a < VM_MAX_RAM);
    let b = m.read_bytes::<_, 1>(a).unwrap()[0];
    assert!(b == 0, "C23 newly allocated heap bytes read as zero even when the memory instance is reused");
    core::mem::forget(m);
}

//@ props=C24 tier=quick class=proved-fin timeout=1200 -- OwnershipRegisters::new: the heap region ends at the CALLER's heap pointer, i.e. $hp saved in the innermost (last) call frame (two frames with symbolic saved $hp), or VM_MAX_RAM without a frame
#[kani::proof]
#[kani::unwind(70)]
fn c24_ownership_registers_new() {
    use crate::interpreter::executors::verif_kani_vm::{new_vm, R_HP, R_SP, R_SSP};
    let mut vm = new_vm();
    let (sp, ssp, hp): (Word, Word, Word) = (kani::any(), kani::any(), kani::any());
    vm.registers[R_SP] = sp; vm.registers[R_SSP] = ssp; vm.registers[R_HP] = hp;
    let o0 = OwnershipRegisters::new(&vm);
    assert!(o0.sp == sp && o0.ssp == ssp && o0.hp == hp, "O-C24.1 current frame's stack and heap pointers");
    assert!(o0.prev_hp == VM_MAX_RAM, "O-C24.1 without a call frame the heap region extends to the end of memory");
    let (h1, h2): (Word, Word) = (kani::any(), kani::any());
    let mut r1 = [0 as Word; VM_REGISTER_COUNT]; r1[R_HP] = h1;
    let mut r2 = [0 as Word; VM_REGISTER_COUNT]; r2[R_HP] = h2;
    let mut frames = Vec::with_capacity(2);
    frames.push(crate::call::CallFrame::new(Default::default(), Default::default(), r1, 8, 0, 0).unwrap());
    frames.push(crate::call::CallFrame::new(Default::default(), Default::default(), r2, 8, 0, 0).unwrap());
    vm.frames = frames;
    let o = OwnershipRegisters::new(&vm);
    assert!(o.prev_hp == h2, "O-C24.1 heap ownership ends at the caller's heap pointer (innermost call frame)");
    core::mem::forget(vm);
}

// (a harness for Normal::check_contract_in_inputs over a BTreeSet<ContractId> did not finish in CBMC within 20 minutes
// even with a single concrete entry; the function is `contains` + set panic context and stays unverified.)

// ---- C24 (crypto writer): ECR1 = secp256r1_recover.  The curve arithmetic is replaced by a stub whose
// verdict is chosen by the harness (ASSUMED library behaviour); proved: where the result goes, that
// the destination must be owned on BOTH outcomes, and that nothing else changes.
/// library model: the verdict and the recovered key are (arbitrary) functions of the signature bytes
pub fn r1_recover_stub(sig: &fuel_types::Bytes64, _msg: &fuel_crypto::Message) -> Result<fuel_types::Bytes64, fuel_crypto::Error> {
    if sig[0] & 1 == 1 { Ok(fuel_types::Bytes64::from([sig[1] ^ 0x5a; 64])) } else { Err(fuel_crypto::Error::InvalidSignature) }
}

//@ props=C24 tier=quick class=bounded(stack=160) timeout=2400 -- ECR1 (secp256r1_recover, library stubbed): on library success the 64 destination bytes receive the key and $err = 0, on failure they are zeroed and $err = 1; in BOTH cases an unowned / inaccessible destination is refused (MemoryOwnership / UninitalizedMemoryAccess / MemoryOverflow) with memory and $err unchanged; only the destination range changes
#[kani::proof]
#[kani::unwind(170)]
#[kani::stub(fuel_crypto::secp256r1::recover, r1_recover_stub)]
fn c24_ecr1_destination_ownership() {
    let mut m = MemoryInstance::new();
    m.grow_stack(160).unwrap();
    let fillb: u8 = kani::any();
    // destination area pre-filled with a symbolic byte so that "unchanged" and "zeroed" differ
    let mut i = 0; while i < 160 { m.stack[i] = fillb; i += 1; }
    let (ssp, sp): (u64, u64) = (kani::any(), kani::any());
    kani::assume(ssp <= sp && sp <= 160);
    let owner = OwnershipRegisters { sp, ssp, hp: VM_MAX_RAM, prev_hp: VM_MAX_RAM };
    let (a, b, c): (u64, u64, u64) = (kani::any(), kani::any(), kani::any());
    // every stack byte is `fillb`, so the signature read at b starts with fillb: verdict and key follow from it
    let ok = fillb & 1 == 1;
    let key = fillb ^ 0x5a;
    let mut err: Word = kani::any();
    let mut pc: Word = kani::any();
    kani::assume(pc <= VM_MAX_RAM);
    let (err0, pc0) = (err, pc);
    let r = crate::interpreter::crypto::secp256r1_recover(&mut m, owner, crate::constraints::reg_key::RegMut::new(&mut err), crate::constraints::reg_key::RegMut::new(&mut pc), a, b, c);
    let readable = b <= 160 - 64 && c <= 160 - 32;
    let writable = a <= 160 - 64 && ssp <= a && a + 64 <= sp;
    if readable && writable {
        assert!(r.is_ok(), "C24 owned destination: ECR1 succeeds");
        assert!(err == if ok { 0 } else { 1 } && pc == pc0 + 4, "C17 $err reports the library verdict; pc + 4");
        let mut k = 0;
        while k < 160 {
            let inside = (k as u64) >= a && (k as u64) < a + 64;
            let want = if inside { if ok { key } else { 0 } } else { fillb };
            assert!(m.stack[k] == want, "C24 exactly the 64 destination bytes change (key on success, zeros on failure)");
            k += 1;
        }
    } else {
        assert!(r.is_err(), "C24 an unowned or unmapped destination (or unreadable operand) is refused on both library outcomes");
        assert!(err == err0 && pc == pc0, "C24 refused ECR1 changes no register");
        let mut k = 0; while k < 160 { assert!(m.stack[k] == fillb, "C24 refused ECR1 leaves memory unchanged"); k += 1; }
    }
    core::mem::forget(m);
}

// (a harness `c23_rollback_restores_snapshot` - snapshot, symbolic writes in both regions, optional heap growth,
// rollback(collect_rollback_data(..)) restores the snapshot - did not finish in CBMC within 40 minutes; rollback stays
// outside the contracts, see seed C23-2.)
