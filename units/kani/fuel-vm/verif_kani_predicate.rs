//! Kani harnesses for `storage::predicate` (child module) and the default verifier.
#![allow(clippy::all, unused_imports, dead_code)]
use super::*;
use crate::storage::{ContractsAssets, ContractsRawCode, ContractsState, BlobData, ContractsAssetKey, ContractsStateKey, ContractsStateData, UploadedBytecodes};
use fuel_storage::{StorageInspect, StorageMutate, StorageRead, StorageReadError, StorageSize, StorageWrite};
use fuel_types::{AssetId, BlobId, Bytes32, ContractId};

/// A delegate that aborts on ANY access: PredicateStorage must answer contract-table operations
/// itself (UnsupportedStorageOperation) without ever reaching the underlying storage.
pub struct Tripwire;
#[derive(Debug)]
pub struct TripErr;
impl StorageInspect<BlobData> for Tripwire {
    type Error = TripErr;
    fn get(&self, _k: &BlobId) -> Result<Option<alloc::borrow::Cow<'_, crate::storage::BlobBytes>>, TripErr> { panic!("delegate reached") }
    fn contains_key(&self, _k: &BlobId) -> Result<bool, TripErr> { panic!("delegate reached") }
}
impl StorageSize<BlobData> for Tripwire { fn size_of_value(&self, _k: &BlobId) -> Result<Option<usize>, TripErr> { panic!("delegate reached") } }
impl StorageRead<BlobData> for Tripwire {
    fn read_exact(&self, _k: &BlobId, _o: usize, _b: &mut [u8]) -> Result<Result<usize, StorageReadError>, TripErr> { panic!("delegate reached") }
    fn read_zerofill(&self, _k: &BlobId, _o: usize, _b: &mut [u8]) -> Result<Result<usize, StorageReadError>, TripErr> { panic!("delegate reached") }
    fn read_alloc(&self, _k: &BlobId) -> Result<Option<Vec<u8>>, TripErr> { panic!("delegate reached") }
}
impl PredicateStorageRequirements for Tripwire { fn storage_error_to_string(_e: TripErr) -> String { String::new() } }

fn unsupported<T>(r: Result<T, PredicateStorageError>) -> bool { matches!(r, Err(PredicateStorageError::UnsupportedStorageOperation)) }

//@ props=C30 tier=quick class=proved-fin -- predicate execution never reads or writes contract state: every contract-code / contract-state / balance / uploaded-bytecode operation and every chain-state operation of PredicateStorage returns UnsupportedStorageOperation for all keys, offsets and buffers, without delegating to the underlying storage
#[kani::proof]
#[kani::unwind(40)]
fn c30_predicate_storage_refuses_contract_state() {
    let mut s = PredicateStorage::new(Tripwire);
    let cid = ContractId::from(kani::any::<[u8; 32]>());
    let key = Bytes32::from(kani::any::<[u8; 32]>());
    let aid = AssetId::from(kani::any::<[u8; 32]>());
    let sk = ContractsStateKey::new(&cid, &key);
    let ak = ContractsAssetKey::new(&cid, &aid);
    let off: usize = kani::any();
    let mut buf = [0u8; 4];
    // contract code
    assert!(unsupported(StorageInspect::<ContractsRawCode>::get(&s, &cid)), "C30 code get");
    assert!(unsupported(StorageInspect::<ContractsRawCode>::contains_key(&s, &cid)), "C30 code contains_key");
    assert!(unsupported(StorageSize::<ContractsRawCode>::size_of_value(&s, &cid)), "C30 code size");
    assert!(unsupported(StorageRead::<ContractsRawCode>::read_exact(&s, &cid, off, &mut buf)), "C30 code read_exact");
    assert!(unsupported(StorageRead::<ContractsRawCode>::read_zerofill(&s, &cid, off, &mut buf)), "C30 code read_zerofill");
    assert!(unsupported(StorageRead::<ContractsRawCode>::read_alloc(&s, &cid)), "C30 code read_alloc");
    assert!(unsupported(StorageWrite::<ContractsRawCode>::write_bytes(&mut s, &cid, &buf)), "C30 code write");
    assert!(unsupported(StorageMutate::<ContractsRawCode>::take(&mut s, &cid)), "C30 code take");
    // contract storage slots
    assert!(unsupported(StorageInspect::<ContractsState>::get(&s, &sk)), "C30 state get");
    assert!(unsupported(StorageInspect::<ContractsState>::contains_key(&s, &sk)), "C30 state contains_key");
    assert!(unsupported(StorageSize::<ContractsState>::size_of_value(&s, &sk)), "C30 state size");
    assert!(unsupported(StorageRead::<ContractsState>::read_exact(&s, &sk, off, &mut buf)), "C30 state read_exact");
    assert!(unsupported(StorageRead::<ContractsState>::read_zerofill(&s, &sk, off, &mut buf)), "C30 state read_zerofill");
    assert!(unsupported(StorageRead::<ContractsState>::read_alloc(&s, &sk)), "C30 state read_alloc");
    assert!(unsupported(StorageWrite::<ContractsState>::write_bytes(&mut s, &sk, &buf)), "C30 state write");
    assert!(unsupported(StorageMutate::<ContractsState>::take(&mut s, &sk)), "C30 state take");
    assert!(unsupported(InterpreterStorage::contract_state_remove_range(&mut s, &cid, &key, off)), "C30 state remove range");
    // contract balances
    assert!(unsupported(StorageInspect::<ContractsAssets>::get(&s, &ak)), "C30 balance get");
    assert!(unsupported(StorageInspect::<ContractsAssets>::contains_key(&s, &ak)), "C30 balance contains_key");
    let w: Word = kani::any();
    assert!(unsupported(StorageMutate::<ContractsAssets>::replace(&mut s, &ak, &w)), "C30 balance replace");
    assert!(unsupported(StorageMutate::<ContractsAssets>::take(&mut s, &ak)), "C30 balance take");
    // uploaded bytecode and chain state
    assert!(unsupported(StorageInspect::<UploadedBytecodes>::get(&s, &key)), "C30 uploaded bytecode get");
    assert!(unsupported(InterpreterStorage::block_height(&s)), "C30 block height");
    assert!(unsupported(InterpreterStorage::coinbase(&s)), "C30 coinbase");
    assert!(unsupported(InterpreterStorage::set_state_transition_bytecode(&mut s, kani::any(), &key)), "C30 set state transition");
    // blob writes are refused too (blob READS are the only delegated operation)
    let bid = BlobId::from(kani::any::<[u8; 32]>());
    assert!(unsupported(StorageWrite::<BlobData>::write_bytes(&mut s, &bid, &buf)), "C30 blob write");
    assert!(unsupported(StorageMutate::<BlobData>::take(&mut s, &bid)), "C30 blob take");
}

//@ props=C30 tier=quick class=proved-fin timeout=900 -- default verifier, no input contracts: every contract id (all 2^256, including the zero id) is refused with ContractNotInInputs and the panic context names it
#[kani::proof]
#[kani::unwind(34)]
fn c30_unlisted_contract_refused_empty_inputs() {
    use crate::verification::{Normal, Verifier};
    use crate::interpreter::PanicContext;
    let id: [u8; 32] = kani::any();
    let id = ContractId::from(id);
    let inputs: alloc::collections::BTreeSet<ContractId> = alloc::collections::BTreeSet::new();
    let mut ctx = PanicContext::None;
    let r = Normal.check_contract_in_inputs(&mut ctx, &inputs, &id);
    assert!(matches!(r, Err(crate::error::PanicOrBug::Panic(fuel_asm::PanicReason::ContractNotInInputs))), "C30 a contract that is not among the transaction's inputs is refused with ContractNotInInputs");
    assert!(ctx == PanicContext::ContractId(id), "C30 the refusal names the contract");
}

//@ props=C30 tier=quick class=bounded(1-input-contract) timeout=900 -- default verifier, one input contract (symbolic id): accepted exactly when the requested id equals it; otherwise ContractNotInInputs
#[kani::proof]
#[kani::unwind(34)]
fn c30_contract_in_inputs_iff_listed_one() {
    use crate::verification::{Normal, Verifier};
    use crate::interpreter::PanicContext;
    let id: [u8; 32] = kani::any();
    let listed: [u8; 32] = kani::any();
    let (id, listed) = (ContractId::from(id), ContractId::from(listed));
    let mut inputs: alloc::collections::BTreeSet<ContractId> = alloc::collections::BTreeSet::new();
    inputs.insert(listed);
    let mut ctx = PanicContext::None;
    let r = Normal.check_contract_in_inputs(&mut ctx, &inputs, &id);
    assert!(r.is_ok() == (id == listed), "C30 a contract is accepted exactly when it is among the transaction's inputs");
    if id != listed { assert!(ctx == PanicContext::ContractId(id), "C30 the refusal names the contract"); }
    core::mem::forget(inputs);
}
