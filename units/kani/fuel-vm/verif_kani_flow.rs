//! Kani harnesses for the return path (child of `interpreter::flow`: RetCtx is private there).
#![allow(clippy::all, unused_imports, dead_code)]
use super::*;
use crate::consts::*;
use crate::interpreter::executors::verif_kani_vm::{unchanged_except, R_CGAS, R_FP, R_GGAS, R_HP, R_PC, R_RET, R_RETL, R_SP, R_SSP};

/// C28's contract for ReceiptsCtx::push (proved in Verus unit c28_receipts) stands in for the real
/// function, whose receipt serialisation and Merkle push exhaust / crash the Kani compiler.
pub fn receipts_push_stub(_ctx: &mut ReceiptsCtx, _receipt: Receipt) -> SimpleResult<()> { Ok(()) }

//@ props=C34 tier=quick class=proved-fin timeout=1800 -- RET from a call: with a frame on the frame stack every register is restored from it except $cgas (= callee remainder + the frame's saved context gas; the overflow => Bug path is excluded), $ggas, $ret (= value), $retl (= 0) and $hp; pc = saved pc + 4; call depth - 1; context follows the restored $fp; all saved/callee register values symbolic
#[kani::proof]
#[kani::unwind(70)]
#[kani::stub(crate::interpreter::receipts::ReceiptsCtx::push, receipts_push_stub)]
fn c34_ret_restores_caller_frame() {
    let saved: [Word; VM_REGISTER_COUNT] = kani::any();
    kani::assume(saved[R_PC] <= VM_MAX_RAM);
    let mut regs: [Word; VM_REGISTER_COUNT] = kani::any();
    let callee = regs;
    let mut frames: Vec<CallFrame> = Vec::with_capacity(1);
    frames.push(CallFrame::new(Default::default(), Default::default(), saved, 8, 0, 0).unwrap());
    let mut memory = MemoryInstance::new();
    let mut receipts = ReceiptsCtx::default();
    let bh: u32 = kani::any();
    let mut context = Context::Call { block_height: bh.into() };
    let value: Word = kani::any();
    // the overflow path builds a `Bug` with `Location::caller()`, which Kani cannot model: excluded (stated)
    kani::assume(callee[R_CGAS].checked_add(saved[R_CGAS]).is_some());
    let r = RetCtx { frames: &mut frames, registers: &mut regs, memory: &mut memory, receipts: &mut receipts, context: &mut context, current_contract: None }.ret(value);
    match callee[R_CGAS].checked_add(saved[R_CGAS]) {
        None => assert!(matches!(r, Err(crate::error::PanicOrBug::Bug(_))), "C34 context gas overflow on return is reported as a bug, not a wrap"),
        Some(cgas) => {
            assert!(r.is_ok(), "C34 return succeeds");
            assert!(regs[R_CGAS] == cgas, "C26 returned unspent gas is credited back: $cgas = callee remainder + caller's saved context gas");
            assert!(regs[R_GGAS] == callee[R_GGAS], "C26 global gas is not restored from the frame");
            assert!(regs[R_RET] == value && regs[R_RETL] == 0, "C34 $ret = value, $retl = 0");
            assert!(regs[R_HP] == callee[R_HP], "C34 heap allocated by the callee stays: $hp is not restored");
            assert!(regs[R_PC] == saved[R_PC] + 4, "C34 the caller resumes at the instruction after the call");
            let mut expect = saved;
            expect[R_PC] = saved[R_PC] + 4;
            assert!(unchanged_except(&expect, &regs, &[R_CGAS, R_GGAS, R_RET, R_RETL, R_HP]), "C34 every other register is restored from the frame");
            assert!(frames.is_empty(), "C34 call depth is back to its previous value");
            let is_script = matches!(context, Context::Script { .. });
            assert!(is_script == (saved[R_FP] == 0), "C34 context follows the restored frame pointer (external iff $fp == 0)");
        }
    }
    core::mem::forget(frames); core::mem::forget(memory); core::mem::forget(receipts);
}

//@ props=C34 tier=quick class=proved-fin timeout=1800 -- RET without a call frame (script level): only $ret/$retl are set and pc advances by 4; nothing else changes
#[kani::proof]
#[kani::unwind(70)]
#[kani::stub(crate::interpreter::receipts::ReceiptsCtx::push, receipts_push_stub)]
fn c34_ret_without_frame() {
    let mut regs: [Word; VM_REGISTER_COUNT] = kani::any();
    kani::assume(regs[R_PC] <= VM_MAX_RAM);
    let pre = regs;
    let mut frames: Vec<CallFrame> = Vec::new();
    let mut memory = MemoryInstance::new();
    let mut receipts = ReceiptsCtx::default();
    let mut context = Context::Script { block_height: 0u32.into() };
    let value: Word = kani::any();
    let r = RetCtx { frames: &mut frames, registers: &mut regs, memory: &mut memory, receipts: &mut receipts, context: &mut context, current_contract: None }.ret(value);
    assert!(r.is_ok());
    assert!(regs[R_RET] == value && regs[R_RETL] == 0 && regs[R_PC] == pre[R_PC] + 4, "C34 script-level RET");
    assert!(unchanged_except(&pre, &regs, &[R_RET, R_RETL, R_PC]), "C34 script-level RET changes nothing else");
    core::mem::forget(frames); core::mem::forget(memory); core::mem::forget(receipts);
}

// ---------------------------------------------------------------------------------------------
// C30: CALL and the transaction's contract inputs (PrepareCallCtx::prepare_call, external context).
// Memory: 80-byte stack holding the call structure (symbolic callee id, a, b) and a symbolic asset
// id; no coins forwarded; no input contracts at all.
// ---------------------------------------------------------------------------------------------
fn call_unlisted(deployed: bool) -> (IoResult<(), core::convert::Infallible>, [Word; VM_REGISTER_COUNT], [Word; VM_REGISTER_COUNT], usize, crate::storage::MemoryStorage, ContractId, PanicContext) {
    use crate::storage::{ContractsRawCode, MemoryStorage};
    use fuel_storage::StorageAsMut;
    let mut memory = MemoryInstance::new();
    memory.grow_stack(80).unwrap();
    let img: [u8; 80] = kani::any();
    memory.write_bytes_noownerchecks(0u64, img).unwrap();
    let to = ContractId::from(<[u8; 32]>::try_from(&img[..32]).unwrap());
    let mut storage = MemoryStorage::new(1u32.into(), Default::default());
    if deployed {
        let code: [u8; 8] = kani::any();
        storage.storage_as_mut::<ContractsRawCode>().insert(&to, &code[..]).unwrap();
    }
    let mut regs: [Word; VM_REGISTER_COUNT] = kani::any();
    kani::assume(regs[R_FP] == 0 && regs[R_SSP] == 80 && regs[R_SP] == 80 && regs[R_HP] == VM_MAX_RAM && regs[R_CGAS] <= regs[R_GGAS]);
    let pre = regs;
    let mut context = Context::Script { block_height: 0u32.into() };
    let mut balances = RuntimeBalances::default();
    let inputs: BTreeSet<ContractId> = BTreeSet::new();
    let mut panic_context = PanicContext::None;
    let mut receipts = ReceiptsCtx::default();
    let mut frames: Vec<CallFrame> = Vec::new();
    let mut verifier = crate::verification::Normal;
    let (base, per): (Word, Word) = (kani::any(), kani::any());
    kani::assume(per >= 1 && per <= 4);
    let r = PrepareCallCtx {
        params: PrepareCallParams { call_params_pointer: 0, amount_of_coins_to_forward: 0, asset_id_pointer: 48, amount_of_gas_to_forward: kani::any() },
        registers: (&mut regs).into(),
        memory: &mut memory,
        context: &mut context,
        gas_cost: DependentCost::HeavyOperation { base, gas_per_unit: per },
        runtime_balances: &mut balances,
        new_storage_gas_per_byte: kani::any(),
        storage: &mut storage,
        input_contracts: &inputs,
        panic_context: &mut panic_context,
        receipts: &mut receipts,
        frames: &mut frames,
        current_contract: None,
        verifier: &mut verifier,
    }.prepare_call();
    let depth = frames.len();
    core::mem::forget(memory); core::mem::forget(receipts); core::mem::forget(frames); core::mem::forget(balances);
    (r, pre, regs, depth, storage, to, panic_context)
}
fn is_panic<T>(r: &IoResult<T, core::convert::Infallible>, reason: PanicReason) -> bool {
    matches!(r, Err(RuntimeError::Recoverable(p)) if *p == reason)
}

//@ props=C30 tier=thorough class=bounded(code=8bytes) timeout=2400 -- CALL to a deployed contract that is not among the inputs (no inputs at all; callee id, arguments, asset, gas all symbolic): refused with ContractNotInInputs naming the callee, no call frame is pushed, no balance entry is created for the callee
#[kani::proof]
#[kani::unwind(90)]
#[kani::stub(crate::constraints::reg_key::split_registers, crate::interpreter::executors::verif_kani_vm::split_registers_stub)]
#[kani::stub(crate::interpreter::receipts::ReceiptsCtx::push, receipts_push_stub)]
fn c30_call_unlisted_deployed_is_refused() {
    use crate::storage::{ContractsAssets, ContractsAssetKey};
    use fuel_storage::{StorageAsRef, StorageInspect};
    let (r, _pre, _post, depth, storage, to, pctx) = call_unlisted(true);
    // the size-dependent gas charge precedes the input check in the current code (see F2), so running out of gas is the other possible refusal
    assert!(is_panic(&r, PanicReason::ContractNotInInputs) || is_panic(&r, PanicReason::OutOfGas), "C30 CALL to a contract that is not among the inputs never succeeds: it is refused with ContractNotInInputs (or runs out of gas first)");
    if is_panic(&r, PanicReason::ContractNotInInputs) { assert!(pctx == PanicContext::ContractId(to), "C30 the refusal names the callee"); }
    kani::cover!(is_panic(&r, PanicReason::ContractNotInInputs), "refusal by the input check is reachable");
    assert!(depth == 0, "C30 a refused CALL pushes no frame: the active context never becomes an unlisted contract");
    let asset: [u8; 32] = kani::any();
    let key = ContractsAssetKey::new(&to, &AssetId::from(asset));
    assert!(!StorageInspect::<ContractsAssets>::contains_key(&storage, &key).unwrap(), "C30 no balance entry is created for the unlisted callee");
    core::mem::forget(storage);
}

//@ props=C30 tier=quick class=proved-fin timeout=1800 -- F2 pin: CALL to an unlisted contract must be refused before any contract table is consulted: with nothing deployed the reason must still be ContractNotInInputs (the current code answers ContractNotFound because it reads the callee's code size first)
#[kani::proof]
#[kani::unwind(90)]
#[kani::stub(crate::constraints::reg_key::split_registers, crate::interpreter::executors::verif_kani_vm::split_registers_stub)]
#[kani::stub(crate::interpreter::receipts::ReceiptsCtx::push, receipts_push_stub)]
fn c30_f2_call_unlisted_undeployed_reason() {
    let (r, _pre, _post, _depth, storage, _to, _pctx) = call_unlisted(false);
    assert!(is_panic(&r, PanicReason::ContractNotInInputs), "F2 CALL to an unlisted contract reads the callee's code size before the input check: the outcome depends on whether the unlisted contract is deployed");
    core::mem::forget(storage);
}

// (a third harness - the gas charged by a refused CALL must not depend on the unlisted callee's code - exhausted CBMC memory and is not kept; F2 is pinned by the reason harness above)
