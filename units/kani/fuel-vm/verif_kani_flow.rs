//! Kani harnesses for the return path (child of `interpreter::flow`: RetCtx is private there).
#![allow(clippy::all, unused_imports, dead_code)]
use super::*;
use crate::consts::*;
use crate::interpreter::executors::verif_kani_vm::{unchanged_except, R_CGAS, R_FP, R_GGAS, R_HP, R_PC, R_RET, R_RETL};

/// C28's contract for ReceiptsCtx::push (proved in Verus unit c28_receipts) stands in for the real
/// function, whose receipt serialisation and Merkle push exhaust / crash the Kani compiler.
pub fn receipts_push_stub(_ctx: &mut ReceiptsCtx, _receipt: Receipt) -> SimpleResult<()> { Ok(()) }

//@ props=C34 tier=quick class=proved-fin timeout=1800 -- RET from a call: with a frame on the frame stack every register is restored from it except $cgas (= callee remainder + the frame's saved context gas; the overflow => Bug path is excluded), $ggas, $ret (= value), $retl (= 0) and $hp; pc = saved pc + 4; call depth - 1; context follows the restored $fp; all saved/callee register values symbolic
#[kani::proof]
#[kani::unwind(70)]
#[kani::stub(crate::interpreter::receipts::ReceiptsCtx::push, receipts_push_stub)]
fn c34_ret_restores_caller_frame() {
    let saved: [Word; VM_REGISTER_COUNT] = kani::any();
    kani::assume(saved[R_PC] <= VM_MAX_RAM);
    let mut regs: [Word; VM_REGISTER_COUNT] = kani::any();
    let callee = regs;
    let mut frames: Vec<CallFrame> = Vec::with_capacity(1);
    frames.push(CallFrame::new(Default::default(), Default::default(), saved, 8, 0, 0).unwrap());
    let mut memory = MemoryInstance::new();
    let mut receipts = ReceiptsCtx::default();
    let bh: u32 = kani::any();
    let mut context = Context::Call { block_height: bh.into() };
    let value: Word = kani::any();
    // the overflow path builds a `Bug` with `Location::caller()`, which Kani cannot model: excluded (stated)
    kani::assume(callee[R_CGAS].checked_add(saved[R_CGAS]).is_some());
    let r = RetCtx { frames: &mut frames, registers: &mut regs, memory: &mut memory, receipts: &mut receipts, context: &mut context, current_contract: None }.ret(value);
    match callee[R_CGAS].checked_add(saved[R_CGAS]) {
        None => assert!(matches!(r, Err(crate::error::PanicOrBug::Bug(_))), "C34 context gas overflow on return is reported as a bug, not a wrap"),
        Some(cgas) => {
            assert!(r.is_ok(), "C34 return succeeds");
            assert!(regs[R_CGAS] == cgas, "C26 returned unspent gas is credited back: $cgas = callee remainder + caller's saved context gas");
            assert!(regs[R_GGAS] == callee[R_GGAS], "C26 global gas is not restored from the frame");
            assert!(regs[R_RET] == value && regs[R_RETL] == 0, "C34 $ret = value, $retl = 0");
            assert!(regs[R_HP] == callee[R_HP], "C34 heap allocated by the callee stays: $hp is not restored");
            assert!(regs[R_PC] == saved[R_PC] + 4, "C34 the caller resumes at the instruction after the call");
            let mut expect = saved;
            expect[R_PC] = saved[R_PC] + 4;
            assert!(unchanged_except(&expect, &regs, &[R_CGAS, R_GGAS, R_RET, R_RETL, R_HP]), "C34 every other register is restored from the frame");
            assert!(frames.is_empty(), "C34 call depth is back to its previous value");
            let is_script = matches!(context, Context::Script { .. });
            assert!(is_script == (saved[R_FP] == 0), "C34 context follows the restored frame pointer (external iff $fp == 0)");
        }
    }
    core::mem::forget(frames); core::mem::forget(memory); core::mem::forget(receipts);
}

//@ props=C34 tier=quick class=proved-fin timeout=1800 -- RET without a call frame (script level): only $ret/$retl are set and pc advances by 4; nothing else changes
#[kani::proof]
#[kani::unwind(70)]
#[kani::stub(crate::interpreter::receipts::ReceiptsCtx::push, receipts_push_stub)]
fn c34_ret_without_frame() {
    let mut regs: [Word; VM_REGISTER_COUNT] = kani::any();
    kani::assume(regs[R_PC] <= VM_MAX_RAM);
    let pre = regs;
    let mut frames: Vec<CallFrame> = Vec::new();
    let mut memory = MemoryInstance::new();
    let mut receipts = ReceiptsCtx::default();
    let mut context = Context::Script { block_height: 0u32.into() };
    let value: Word = kani::any();
    let r = RetCtx { frames: &mut frames, registers: &mut regs, memory: &mut memory, receipts: &mut receipts, context: &mut context, current_contract: None }.ret(value);
    assert!(r.is_ok());
    assert!(regs[R_RET] == value && regs[R_RETL] == 0 && regs[R_PC] == pre[R_PC] + 4, "C34 script-level RET");
    assert!(unchanged_except(&pre, &regs, &[R_RET, R_RETL, R_PC]), "C34 script-level RET changes nothing else");
    core::mem::forget(frames); core::mem::forget(memory); core::mem::forget(receipts);
}
