//! Kani harness for the Upload step's table handling (child of `interpreter::executors::main`: upload_inner is private).
#![allow(clippy::all, unused_imports, dead_code)]
use super::*;
use crate::storage::{MemoryStorage, UploadedBytecode, UploadedBytecodes};
use fuel_storage::{StorageAsMut, StorageAsRef, StorageInspect};
use fuel_tx::{policies::Policies, UploadBody, Witness};
use fuel_types::Bytes32;

fn vec_of(n: usize, a: u8, b: u8) -> Vec<u8> { let mut v = Vec::with_capacity(2); if n > 0 { v.push(a); } if n > 1 { v.push(b); } v }


fn run_rejected(prior: Option<UploadedBytecode>, idx: u16, expect: PanicReason) {
    let root = Bytes32::from([7u8; 32]);
    let mut storage = MemoryStorage::new(1u32.into(), Default::default());
    if let Some(p) = &prior { storage.storage_as_mut::<UploadedBytecodes>().insert(&root, p).unwrap(); }
    let sn: usize = kani::any(); kani::assume(sn <= 2);
    let mut ws: Vec<Witness> = Vec::with_capacity(1);
    ws.push(Witness::from(vec_of(sn, kani::any(), kani::any())));
    let body = UploadBody { root, witness_index: 0, subsection_index: idx, subsections_number: kani::any(), proof_set: Vec::new() };
    let mut tx = Transaction::upload(body, Policies::new(), Vec::new(), Vec::new(), ws);
    let gas_costs = GasCosts::default();
    let fee = FeeParameters::DEFAULT;
    let base = AssetId::zeroed();
    let r = Interpreter::<MemoryInstance, MemoryStorage, Upload>::upload_inner(&mut tx, &mut storage, InitialBalances::default(), &gas_costs, &fee, &base, kani::any());
    assert!(matches!(r, Err(InterpreterError::Panic(reason)) if reason == expect), "C35 the upload is refused with the specified panic reason");
    let after = storage.storage_as_ref::<UploadedBytecodes>().get(&root).unwrap().map(|x| x.into_owned());
    assert!(after == prior, "C35 a failed upload leaves the uploaded-bytecode table entry unchanged (an absent entry stays absent)");
    core::mem::forget(storage); core::mem::forget(tx);
}

// Control values (prior kind, count, index) are concrete per harness so that CBMC prunes the accepted
// path (finalize_outputs exhausts memory); bytes, total and gas price are symbolic, the root is fixed.
macro_rules! rejected {
    ($name:ident, $prior:expr, $idx:expr, $reason:expr) => {
        #[kani::proof]
        #[kani::unwind(12)]
        fn $name() {
            let on: usize = kani::any(); kani::assume(on <= 2);
            let old = vec_of(on, kani::any(), kani::any());
            let _ = &old;
            let mk: fn(Vec<u8>) -> Option<UploadedBytecode> = $prior; run_rejected(mk(old), $idx, $reason);
        }
    };
}
//@ props=C35 tier=thorough class=bounded(control-values-concrete) timeout=2400 -- upload_inner on the real function with MemoryStorage: a first-ever subsection with index 1 is refused (ThePartIsNotSequentiallyConnected) and the root stays absent from the table
rejected!(c35_upload_rejected_first_idx1, |_o| None, 1, PanicReason::ThePartIsNotSequentiallyConnected);
//@ props=C35 tier=thorough class=bounded(control-values-concrete) timeout=2400 -- same with index 65535
rejected!(c35_upload_rejected_first_idxmax, |_o| None, u16::MAX, PanicReason::ThePartIsNotSequentiallyConnected);
// (continuation / completed-root variants need a populated BTreeMap: CBMC ran out of time / memory on them - not kept)
