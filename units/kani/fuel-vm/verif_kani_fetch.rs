//! Kani harnesses that need items private to `interpreter::executors::instruction`
//! (`fetch_instruction`, `instruction_inner`).
#![allow(clippy::all, unused_imports, dead_code)]
use super::*;
use crate::{
    consts::*,
    error::{InterpreterError, RuntimeError},
    interpreter::executors::verif_kani_vm::{new_vm, sym_registers, unchanged_except, Vm, R_IS, R_PC, R_SSP, R_SP, R_HP},
};
use fuel_asm::{PanicReason, RawInstruction};

//@ props=C25,C29 tier=quick class=proved-fin -- fetch: an instruction is fetched only when its 4 bytes are readable and $is <= pc < $ssp; otherwise the read error resp. MemoryNotExecutable (stack extent 16 bytes, every pc)
#[kani::proof]
#[kani::unwind(70)]
fn c25_fetch_instruction() {
    let mut vm = new_vm();
    let pre = sym_registers(&mut vm);
    vm.memory.grow_stack(16).unwrap();
    let pc = pre[R_PC];
    let r = vm.fetch_instruction();
    let readable = pc + 4 <= 16; // heap is empty: hp == MEM_SIZE, nothing above the stack extent is mapped
    match r {
        Ok(raw) => {
            assert!(readable, "C25 fetch succeeds only if the four bytes are readable");
            assert!(pre[R_IS] <= pc && pc < pre[R_SSP], "C25 an instruction is executed only inside [$is, $ssp)");
            assert!(raw == [0u8; 4], "C23 freshly grown stack reads as zero");
        }
        Err(e) => {
            assert!(!matches!(e, InterpreterError::Bug(_)), "C29 no internal bug from fetch");
            if readable {
                assert!(pc < pre[R_IS] || pc >= pre[R_SSP], "C25 fetch of a readable, executable address succeeds");
                assert!(e.panic_reason() == Some(PanicReason::MemoryNotExecutable), "C25 MemoryNotExecutable outside [$is, $ssp)");
            } else {
                assert!(e.panic_reason() == Some(PanicReason::UninitalizedMemoryAccess) || e.panic_reason() == Some(PanicReason::MemoryOverflow),
                        "C25 unreadable pc gives the read error");
            }
        }
    }
    assert!(unchanged_except(&pre, &vm.registers, &[]), "C25 fetch does not change registers");
    core::mem::forget(vm);
}

//@ props=C29 tier=quick class=proved-fin -- InterpreterError::from_runtime: Bug only from RuntimeError::Bug; Recoverable(reason) becomes a PanicInstruction carrying the reason and the raw instruction (all reasons, all words)
#[kani::proof]
fn c29_from_runtime() {
    let raw: u32 = kani::any();
    let code: u8 = kani::any();
    let reason = PanicReason::from(code);
    let e: InterpreterError<()> = InterpreterError::from_runtime(RuntimeError::Recoverable(reason), raw);
    assert!(!matches!(e, InterpreterError::Bug(_)), "C29 a VM panic is never reported as an internal bug");
    assert!(e.panic_reason() == Some(reason), "C28 panic reason preserved");
    assert!(e.instruction() == Some(&raw), "C28 panic carries the failing instruction");
    let s: InterpreterError<()> = InterpreterError::from_runtime(RuntimeError::Storage(()), raw);
    assert!(matches!(s, InterpreterError::Storage(())), "C29 storage errors stay storage errors");
}

// NOTE: instruction_inner/execute_instruction cannot be reached from a harness: the monolithic
// dispatcher pulls in the secp256k1 FFI path, which crashes the Kani compiler (DESIGN.md §2, ICE 3).
