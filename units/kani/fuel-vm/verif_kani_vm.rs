//! Kani harnesses over the real interpreter, one instruction at a time (harness-as-contract:
//! assume = requires, assert = ensures).  Injected as a child of `interpreter::executors` because
//! the `Execute` trait and the interpreter's fields are private to that subtree.
#![allow(clippy::all, unused_imports, dead_code, non_snake_case, unused_variables, unused_mut)]
use super::instruction::Execute;
use crate::{
    constraints::reg_key::*,
    consts::*,
    error::{IoResult, RuntimeError},
    interpreter::{Interpreter, InterpreterParams, MemoryInstance, NotSupportedEcal},
    state::ExecuteState,
    storage::MemoryStorage,
    verification::Normal,
};
use fuel_asm::{op, Imm06, Imm12, Imm18, Imm24, PanicReason, RegId};
use fuel_tx::{ConsensusParameters, ContractId, GasCosts, Script};
use fuel_types::Word;

#[path = "verif_kani_gas.rs"]
pub mod gas;
use gas::*;

pub type Vm = Interpreter<MemoryInstance, MemoryStorage, Script, NotSupportedEcal, Normal>;
pub type Res = IoResult<ExecuteState, <MemoryStorage as crate::storage::InterpreterStorage>::DataError>;

/// Kani ICE work-around (DESIGN.md §2): the `[a, b, .., rest @ ..]` array pattern in
/// `split_registers` crashes the Kani compiler.  ASSUMED equivalent: same 16 + 48 references.
pub fn split_registers_stub(
    registers: &mut [Word; VM_REGISTER_COUNT],
) -> (SystemRegisters<'_>, ProgramRegisters<'_>) {
    let (sys, rest) = registers.split_at_mut(VM_REGISTER_SYSTEM_COUNT);
    let rest: &mut [Word; VM_REGISTER_PROGRAM_COUNT] = rest.try_into().unwrap();
    let (zero, s) = sys.split_first_mut().unwrap();
    let (one, s) = s.split_first_mut().unwrap();
    let (of, s) = s.split_first_mut().unwrap();
    let (pc, s) = s.split_first_mut().unwrap();
    let (ssp, s) = s.split_first_mut().unwrap();
    let (sp, s) = s.split_first_mut().unwrap();
    let (fp, s) = s.split_first_mut().unwrap();
    let (hp, s) = s.split_first_mut().unwrap();
    let (err, s) = s.split_first_mut().unwrap();
    let (ggas, s) = s.split_first_mut().unwrap();
    let (cgas, s) = s.split_first_mut().unwrap();
    let (bal, s) = s.split_first_mut().unwrap();
    let (is, s) = s.split_first_mut().unwrap();
    let (ret, s) = s.split_first_mut().unwrap();
    let (retl, s) = s.split_first_mut().unwrap();
    let (flag, _s) = s.split_first_mut().unwrap();
    (
        SystemRegisters {
            zero: RegMut::new(zero), one: RegMut::new(one), of: RegMut::new(of), pc: RegMut::new(pc),
            ssp: RegMut::new(ssp), sp: RegMut::new(sp), fp: RegMut::new(fp), hp: RegMut::new(hp),
            err: RegMut::new(err), ggas: RegMut::new(ggas), cgas: RegMut::new(cgas), bal: RegMut::new(bal),
            is: RegMut::new(is), ret: RegMut::new(ret), retl: RegMut::new(retl), flag: RegMut::new(flag),
        },
        ProgramRegisters(rest),
    )
}

pub const R_ZERO: usize = 0; pub const R_ONE: usize = 1; pub const R_OF: usize = 2; pub const R_PC: usize = 3;
pub const R_SSP: usize = 4; pub const R_SP: usize = 5; pub const R_FP: usize = 6; pub const R_HP: usize = 7;
pub const R_ERR: usize = 8; pub const R_GGAS: usize = 9; pub const R_CGAS: usize = 10; pub const R_BAL: usize = 11;
pub const R_IS: usize = 12; pub const R_RET: usize = 13; pub const R_RETL: usize = 14; pub const R_FLAG: usize = 15;

/// A VM with the pairwise-distinct gas schedule and a fully symbolic register file satisfying the
/// interpreter's register invariants (type invariant of the state, DESIGN.md §1.3).
pub fn new_vm() -> Vm {
    let mut params = InterpreterParams::default();
    params.gas_costs = GasCosts::new(distinct_costs().into());
    Interpreter::with_storage(
        MemoryInstance::new(),
        MemoryStorage::new(1u32.into(), ContractId::zeroed()),
        params,
    )
}

pub fn sym_registers(vm: &mut Vm) -> [Word; VM_REGISTER_COUNT] {
    let r: [Word; VM_REGISTER_COUNT] = kani::any();
    kani::assume(r[R_ZERO] == 0 && r[R_ONE] == 1);
    kani::assume(r[R_FLAG] < 4);
    kani::assume(r[R_CGAS] <= r[R_GGAS]);
    kani::assume(r[R_PC] <= VM_MAX_RAM && r[R_PC] % 4 == 0);
    kani::assume(r[R_IS] <= r[R_PC]);
    kani::assume(r[R_SSP] <= r[R_SP] && r[R_SP] <= r[R_HP] && r[R_HP] <= VM_MAX_RAM);
    kani::assume(r[R_FP] <= r[R_SSP]);
    vm.registers = r;
    kani::cover!(true, "register invariants satisfiable");
    r
}

pub fn any_reg() -> RegId { let a: u8 = kani::any(); kani::assume(a < 64); RegId::new(a) }
pub fn any_imm12() -> Imm12 { let a: u16 = kani::any(); kani::assume(a < 4096); Imm12::new(a) }
pub fn any_imm18() -> Imm18 { let a: u32 = kani::any(); kani::assume(a < (1 << 18)); Imm18::new(a) }
pub fn any_imm24() -> Imm24 { let a: u32 = kani::any(); kani::assume(a < (1 << 24)); Imm24::new(a) }
pub fn any_imm06() -> Imm06 { let a: u8 = kani::any(); kani::assume(a < 64); Imm06::new(a) }
pub fn ri(r: RegId) -> usize { r.to_u8() as usize }

pub fn panic_of(res: &Res) -> Option<PanicReason> {
    match res { Err(RuntimeError::Recoverable(p)) => Some(*p), _ => None }
}

/// frame: every register except those listed equals its pre-state value
pub fn unchanged_except(pre: &[Word; 64], post: &[Word; 64], except: &[usize]) -> bool {
    let mut i = 0;
    let mut ok = true;
    while i < 64 {
        let mut skip = false;
        let mut j = 0;
        while j < except.len() { if except[j] == i { skip = true; } j += 1; }
        if !skip && pre[i] != post[i] { ok = false; }
        i += 1;
    }
    ok
}

/// Expected outcome of a register-writing instruction *after* a successful gas charge.
pub enum Out { Panic(PanicReason), Write { val: Word, of: Word, err: Word } }

/// The common contract of every register-writing ALU instruction (C21 + C25 + C26 + C29):
///  * gas: cost > $cgas  => OutOfGas, $cgas' = 0, $ggas' = $ggas - $cgas, nothing else changes;
///         otherwise both gas registers decrease by exactly `cost`;
///  * reserved destination (< 16) => ReservedRegisterNotWritable, every non-gas register unchanged;
///  * specified panic => that reason, every non-gas register unchanged;
///  * otherwise $rA = val, $of, $err as specified, $pc += 4, every other register unchanged.
pub fn check_alu(pre: &[Word; 64], vm: &Vm, res: Res, ra: RegId, cost: Word, out: Out) {
    let post = &vm.registers;
    assert!(!matches!(res, Err(RuntimeError::Bug(_))), "C29 no internal-bug error");
    assert!(post[R_CGAS] <= post[R_GGAS], "C26 context gas never exceeds global gas");
    assert!(post[R_GGAS] <= pre[R_GGAS], "C26 global gas never increases");
    if cost > pre[R_CGAS] {
        assert!(panic_of(&res) == Some(PanicReason::OutOfGas), "C26 out of gas exactly when cost exceeds context gas");
        assert!(post[R_CGAS] == 0 && post[R_GGAS] == pre[R_GGAS] - pre[R_CGAS], "C26 out of gas leaves context gas at zero");
        assert!(unchanged_except(pre, post, &[R_CGAS, R_GGAS]), "C26 out-of-gas performs no other effect");
        return;
    }
    assert!(post[R_CGAS] == pre[R_CGAS] - cost && post[R_GGAS] == pre[R_GGAS] - cost, "C26 instruction consumes exactly the scheduled gas");
    assert!(panic_of(&res) != Some(PanicReason::OutOfGas), "C26 no out-of-gas when the cost is affordable");
    let a = ri(ra);
    if a < 16 {
        assert!(panic_of(&res) == Some(PanicReason::ReservedRegisterNotWritable), "C21 writing a reserved register panics with ReservedRegisterNotWritable");
        assert!(unchanged_except(pre, post, &[R_CGAS, R_GGAS]), "C21 reserved-register panic leaves every non-gas register unchanged");
        return;
    }
    match out {
        Out::Panic(p) => {
            assert!(panic_of(&res) == Some(p), "C21 panics with the specified reason");
            assert!(unchanged_except(pre, post, &[R_CGAS, R_GGAS]), "C21 a panicking instruction leaves every non-gas register unchanged");
        }
        Out::Write { val, of, err } => {
            assert!(matches!(res, Ok(ExecuteState::Proceed)), "C21 instruction succeeds");
            assert!(post[a] == val, "C21 destination register holds exactly the specified result");
            assert!(post[R_OF] == of, "C21 $of as specified");
            assert!(post[R_ERR] == err, "C21 $err as specified");
            assert!(post[R_PC] == pre[R_PC] + 4, "C25 non-jump instruction advances pc by exactly four");
            assert!(unchanged_except(pre, post, &[a, R_OF, R_ERR, R_PC, R_CGAS, R_GGAS]), "C21 no other register changes");
        }
    }
}

/// register file as the instruction body sees it: gas already charged (when affordable)
pub fn after_gas(pre: &[Word; 64], cost: Word) -> [Word; 64] {
    let mut m = *pre;
    if cost <= pre[R_CGAS] { m[R_CGAS] = pre[R_CGAS] - cost; m[R_GGAS] = pre[R_GGAS] - cost; }
    m
}

pub fn wrapping(pre: &[Word; 64]) -> bool { pre[R_FLAG] & 0x02 != 0 }
pub fn unsafemath(pre: &[Word; 64]) -> bool { pre[R_FLAG] & 0x01 != 0 }

/// spec helper: result of an operation producing a 128-bit value whose high half goes to $of
pub fn capture(pre: &[Word; 64], wide: u128) -> Out {
    if wide > u64::MAX as u128 && !wrapping(pre) { Out::Panic(PanicReason::ArithmeticOverflow) }
    else { Out::Write { val: wide as u64, of: (wide >> 64) as u64, err: 0 } }
}
/// spec helper: operation that can overflow with a boolean indicator (result 0, $of = 1 when wrapping)
pub fn boolean(pre: &[Word; 64], val: Word, overflow: bool) -> Out {
    if overflow { if wrapping(pre) { Out::Write { val: 0, of: 1, err: 0 } } else { Out::Panic(PanicReason::ArithmeticOverflow) } }
    else { Out::Write { val, of: 0, err: 0 } }
}
/// spec helper: operation with an error condition (result 0, $err = 1 under UNSAFEMATH)
pub fn erroring(pre: &[Word; 64], val: Word, error: bool) -> Out {
    if error { if unsafemath(pre) { Out::Write { val: 0, of: 0, err: 1 } } else { Out::Panic(PanicReason::ArithmeticError) } }
    else { Out::Write { val, of: 0, err: 0 } }
}
pub fn plain(val: Word) -> Out { Out::Write { val, of: 0, err: 0 } }

macro_rules! alu_rrr {
    ($name:ident, $Op:ident, $cost:expr, |$pre:ident, $b:ident, $c:ident| $spec:expr) => {
        #[kani::proof]
        #[kani::stub(crate::constraints::reg_key::split_registers, split_registers_stub)]
        fn $name() {
            let mut vm = new_vm();
            let $pre = sym_registers(&mut vm);
            let (ra, rb, rc) = (any_reg(), any_reg(), any_reg());
            let mid = after_gas(&$pre, $cost); // operands are read after the gas charge
            let $b: Word = mid[ri(rb)];
            let $c: Word = mid[ri(rc)];
            let res = op::$Op::new(ra, rb, rc).execute(&mut vm);
            check_alu(&$pre, &vm, res, ra, $cost, $spec);
            core::mem::forget(vm); // no drop glue (unbounded loops over empty vectors)
        }
    };
}
macro_rules! alu_rri {
    ($name:ident, $Op:ident, $cost:expr, |$pre:ident, $b:ident, $c:ident| $spec:expr) => {
        #[kani::proof]
        #[kani::stub(crate::constraints::reg_key::split_registers, split_registers_stub)]
        fn $name() {
            let mut vm = new_vm();
            let $pre = sym_registers(&mut vm);
            let (ra, rb, imm) = (any_reg(), any_reg(), any_imm12());
            let mid = after_gas(&$pre, $cost);
            let $b: Word = mid[ri(rb)];
            let $c: Word = imm.to_u16() as Word;
            let res = op::$Op::new(ra, rb, imm).execute(&mut vm);
            check_alu(&$pre, &vm, res, ra, $cost, $spec);
            core::mem::forget(vm); // no drop glue (unbounded loops over empty vectors)
        }
    };
}

// ---------------------------------------------------------------------------------------------
// C21: register arithmetic / logic.  Specs are written from the FuelVM instruction set, not from alu.rs.
// ---------------------------------------------------------------------------------------------
//@ props=C21,C25,C26,C29 tier=quick class=proved-fin -- ADD: all operands, flags, gas, all 64 destinations
alu_rrr!(c21_add, ADD, COST_add, |pre, b, c| capture(&pre, b as u128 + c as u128));
//@ props=C21,C25:thorough,C26:thorough,C29:thorough tier=quick class=proved-fin -- ADDI
alu_rri!(c21_addi, ADDI, COST_addi, |pre, b, c| capture(&pre, b as u128 + c as u128));
//@ props=C21,C25:thorough,C26:thorough,C29:thorough tier=quick class=proved-fin -- SUB: underflow wraps with $of = high half of the 128-bit difference
alu_rrr!(c21_sub, SUB, COST_sub, |pre, b, c| capture(&pre, (b as u128).wrapping_sub(c as u128)));
//@ props=C21,C25:thorough,C26:thorough,C29:thorough tier=quick class=proved-fin -- SUBI
alu_rri!(c21_subi, SUBI, COST_subi, |pre, b, c| capture(&pre, (b as u128).wrapping_sub(c as u128)));
//@ props=C21,C25:thorough,C26:thorough,C29:thorough tier=quick class=proved-fin -- AND
alu_rrr!(c21_and, AND, COST_and, |pre, b, c| plain(b & c));
//@ props=C21,C25:thorough,C26:thorough,C29:thorough tier=quick class=proved-fin -- ANDI
alu_rri!(c21_andi, ANDI, COST_andi, |pre, b, c| plain(b & c));
//@ props=C21,C25:thorough,C26:thorough,C29:thorough tier=quick class=proved-fin -- OR
alu_rrr!(c21_or, OR, COST_or, |pre, b, c| plain(b | c));
//@ props=C21,C25:thorough,C26:thorough,C29:thorough tier=quick class=proved-fin -- ORI
alu_rri!(c21_ori, ORI, COST_ori, |pre, b, c| plain(b | c));
//@ props=C21,C25:thorough,C26:thorough,C29:thorough tier=quick class=proved-fin -- XOR
alu_rrr!(c21_xor, XOR, COST_xor, |pre, b, c| plain(b ^ c));
//@ props=C21,C25:thorough,C26:thorough,C29:thorough tier=quick class=proved-fin -- XORI
alu_rri!(c21_xori, XORI, COST_xori, |pre, b, c| plain(b ^ c));
//@ props=C21,C25:thorough,C26:thorough,C29:thorough tier=quick class=proved-fin -- EQ
alu_rrr!(c21_eq, EQ, COST_eq, |pre, b, c| plain((b == c) as Word));
//@ props=C21,C25:thorough,C26:thorough,C29:thorough tier=quick class=proved-fin -- GT
alu_rrr!(c21_gt, GT, COST_gt, |pre, b, c| plain((b > c) as Word));
//@ props=C21,C25:thorough,C26:thorough,C29:thorough tier=quick class=proved-fin -- LT
alu_rrr!(c21_lt, LT, COST_lt, |pre, b, c| plain((b < c) as Word));
//@ props=C21,C25:thorough,C26:thorough,C29:thorough tier=quick class=proved-fin -- SLL: shift amounts >= 64 give 0
alu_rrr!(c21_sll, SLL, COST_sll, |pre, b, c| plain(if c >= 64 { 0 } else { b << c }));
//@ props=C21,C25:thorough,C26:thorough,C29:thorough tier=quick class=proved-fin -- SLLI
alu_rri!(c21_slli, SLLI, COST_slli, |pre, b, c| plain(if c >= 64 { 0 } else { b << c }));
//@ props=C21,C25:thorough,C26:thorough,C29:thorough tier=quick class=proved-fin -- SRL
alu_rrr!(c21_srl, SRL, COST_srl, |pre, b, c| plain(if c >= 64 { 0 } else { b >> c }));
//@ props=C21,C25:thorough,C26:thorough,C29:thorough tier=quick class=proved-fin -- SRLI
alu_rri!(c21_srli, SRLI, COST_srli, |pre, b, c| plain(if c >= 64 { 0 } else { b >> c }));

// ---------------------------------------------------------------------------------------------
// Instructions whose arithmetic core is a std primitive that CBMC cannot compare against itself at
// 64/128 bits (multiplier / divider / pow circuits).  The primitive is replaced by an abstract,
// non-commutative model on BOTH sides (Kani stub = ASSUMPTION "std arithmetic is the mathematical
// operation"); what is proved is the glue: which operands reach the primitive in which order, how
// the result, $of, $err, flags, panics, pc and gas are derived from it.  Any other primitive in the
// handler is not stubbed and therefore differs from the model.
// ---------------------------------------------------------------------------------------------
pub fn mul_model(a: u128, b: u128) -> (u128, bool) {
    let r = (a ^ b.rotate_left(61)).wrapping_add(0x9e37_79b9_7f4a_7c15_f39c_c060_5ced_c835);
    (r, r > u64::MAX as u128)
}
pub fn rem_model(a: u64, b: u64) -> u64 { (a ^ b.rotate_left(29)).wrapping_add(0x9e37_79b9_7f4a_7c15) }
pub fn pow_model(a: u64, e: u32) -> (u64, bool) {
    let r = (a ^ (e as u64).rotate_left(41)).wrapping_add(0xc2b2_ae3d_27d4_eb4f);
    (r, (r >> 7) & 1 == 1)
}
pub fn ilog_model(a: u64, b: u64) -> Option<u32> { Some(((a ^ b.rotate_left(17)) & 0x3f) as u32) }

macro_rules! alu_stubbed {
    ($name:ident, $stubpath:path, $stub:path, |$vm:ident, $pre:ident, $mid:ident| $body:block) => {
        #[kani::proof]
        #[kani::stub(crate::constraints::reg_key::split_registers, split_registers_stub)]
        #[kani::stub($stubpath, $stub)]
        fn $name() {
            let mut $vm = new_vm();
            let $pre = sym_registers(&mut $vm);
            $body;
            core::mem::forget($vm);
        }
    };
}

//@ props=C21,C25:thorough,C26:thorough,C29:thorough tier=quick class=proved-fin -- MUL glue: operands, $of = high half, overflow panic, frame (u128::overflowing_mul abstracted)
alu_stubbed!(c21_mul, u128::overflowing_mul, mul_model, |vm, pre, mid| {
    let (ra, rb, rc) = (any_reg(), any_reg(), any_reg());
    let mid = after_gas(&pre, COST_mul);
    let res = op::MUL::new(ra, rb, rc).execute(&mut vm);
    check_alu(&pre, &vm, res, ra, COST_mul, capture(&pre, mul_model(mid[ri(rb)] as u128, mid[ri(rc)] as u128).0));
});
//@ props=C21,C25:thorough,C26:thorough,C29:thorough tier=quick class=proved-fin -- MULI glue (u128::overflowing_mul abstracted)
alu_stubbed!(c21_muli, u128::overflowing_mul, mul_model, |vm, pre, mid| {
    let (ra, rb, imm) = (any_reg(), any_reg(), any_imm12());
    let mid = after_gas(&pre, COST_muli);
    let res = op::MULI::new(ra, rb, imm).execute(&mut vm);
    check_alu(&pre, &vm, res, ra, COST_muli, capture(&pre, mul_model(mid[ri(rb)] as u128, imm.to_u16() as u128).0));
});
//@ props=C21,C25:thorough,C26:thorough,C29:thorough tier=quick class=proved-fin -- MOD glue: zero divisor => $err/ArithmeticError (u64::wrapping_rem abstracted)
alu_stubbed!(c21_mod, u64::wrapping_rem, rem_model, |vm, pre, mid| {
    let (ra, rb, rc) = (any_reg(), any_reg(), any_reg());
    let mid = after_gas(&pre, COST_mod_op);
    let (b, c) = (mid[ri(rb)], mid[ri(rc)]);
    let res = op::MOD::new(ra, rb, rc).execute(&mut vm);
    check_alu(&pre, &vm, res, ra, COST_mod_op, erroring(&pre, if c == 0 { 0 } else { rem_model(b, c) }, c == 0));
});
//@ props=C21,C25:thorough,C26:thorough,C29:thorough tier=quick class=proved-fin -- MODI glue (u64::wrapping_rem abstracted)
alu_stubbed!(c21_modi, u64::wrapping_rem, rem_model, |vm, pre, mid| {
    let (ra, rb, imm) = (any_reg(), any_reg(), any_imm12());
    let mid = after_gas(&pre, COST_modi);
    let (b, c) = (mid[ri(rb)], imm.to_u16() as Word);
    let res = op::MODI::new(ra, rb, imm).execute(&mut vm);
    check_alu(&pre, &vm, res, ra, COST_modi, erroring(&pre, if c == 0 { 0 } else { rem_model(b, c) }, c == 0));
});
//@ props=C21,C25:thorough,C26:thorough,C29:thorough tier=quick class=proved-fin -- EXP glue incl. exponents above u32::MAX (u64::overflowing_pow abstracted)
alu_stubbed!(c21_exp, u64::overflowing_pow, pow_model, |vm, pre, mid| {
    let (ra, rb, rc) = (any_reg(), any_reg(), any_reg());
    let mid = after_gas(&pre, COST_exp);
    let (b, c) = (mid[ri(rb)], mid[ri(rc)]);
    let res = op::EXP::new(ra, rb, rc).execute(&mut vm);
    // b^c for c >= 2^32: 0^c = 0, 1^c = 1, anything else overflows
    let (v, o) = if c <= u32::MAX as u64 { pow_model(b, c as u32) } else if b < 2 { (b, false) } else { (0, true) };
    check_alu(&pre, &vm, res, ra, COST_exp, boolean(&pre, v, o));
});
//@ props=C21,C25:thorough,C26:thorough,C29:thorough tier=quick class=proved-fin -- EXPI glue (u64::overflowing_pow abstracted)
alu_stubbed!(c21_expi, u64::overflowing_pow, pow_model, |vm, pre, mid| {
    let (ra, rb, imm) = (any_reg(), any_reg(), any_imm12());
    let mid = after_gas(&pre, COST_expi);
    let res = op::EXPI::new(ra, rb, imm).execute(&mut vm);
    let (v, o) = pow_model(mid[ri(rb)], imm.to_u16() as u32);
    check_alu(&pre, &vm, res, ra, COST_expi, boolean(&pre, v, o));
});
//@ props=C21,C25:thorough,C26:thorough,C29:thorough tier=quick class=proved-fin -- MLOG glue: b == 0 or c <= 1 is the error case (u64::checked_ilog abstracted)
alu_stubbed!(c21_mlog, u64::checked_ilog, ilog_model, |vm, pre, mid| {
    let (ra, rb, rc) = (any_reg(), any_reg(), any_reg());
    let mid = after_gas(&pre, COST_mlog);
    let (b, c) = (mid[ri(rb)], mid[ri(rc)]);
    let res = op::MLOG::new(ra, rb, rc).execute(&mut vm);
    let e = b == 0 || c <= 1;
    check_alu(&pre, &vm, res, ra, COST_mlog, erroring(&pre, if e { 0 } else { ilog_model(b, c).unwrap() as Word }, e));
});

/// DIV/DIVI use `<u64 as Div>::div`, which Kani cannot stub; operands are bounded instead.
macro_rules! alu_div_bounded {
    ($name:ident, $Op:ident, $cost:expr, $imm:expr) => {
        #[kani::proof]
        #[kani::stub(crate::constraints::reg_key::split_registers, split_registers_stub)]
        fn $name() {
            let mut vm = new_vm();
            let pre = sym_registers(&mut vm);
            let (ra, rb) = (any_reg(), any_reg());
            let mid = after_gas(&pre, $cost);
            let b = mid[ri(rb)];
            kani::assume(b < (1 << 16));
            let (c, res) = if $imm {
                let imm = any_imm12();
                (imm.to_u16() as Word, op::DIVI::new(ra, rb, imm).execute(&mut vm))
            } else {
                let rc = any_reg();
                kani::assume(mid[ri(rc)] < (1 << 16));
                (mid[ri(rc)], op::DIV::new(ra, rb, rc).execute(&mut vm))
            };
            check_alu(&pre, &vm, res, ra, $cost, erroring(&pre, if c == 0 { 0 } else { b / c }, c == 0));
            core::mem::forget(vm);
        }
    };
}
//@ props=C21,C25,C26,C29 tier=quick class=bounded(operands<2^16) -- DIV with real division, operands below 2^16 (divider circuit too large for CBMC at 64 bits)
alu_div_bounded!(c21_div, DIV, COST_div, false);
//@ props=C21,C25:thorough,C26:thorough,C29:thorough tier=quick class=bounded(operands<2^16) -- DIVI
alu_div_bounded!(c21_divi, DIVI, COST_divi, true);

// ---- two-operand / immediate moves ---------------------------------------------------------------
//@ props=C21,C25:thorough,C26:thorough,C29:thorough tier=quick class=proved-fin -- NOT
#[kani::proof]
#[kani::stub(crate::constraints::reg_key::split_registers, split_registers_stub)]
fn c21_not() {
    let mut vm = new_vm();
    let pre = sym_registers(&mut vm);
    let (ra, rb) = (any_reg(), any_reg());
    let mid = after_gas(&pre, COST_not);
    let res = op::NOT::new(ra, rb).execute(&mut vm);
    check_alu(&pre, &vm, res, ra, COST_not, plain(!mid[ri(rb)]));
    core::mem::forget(vm);
}
//@ props=C21,C25:thorough,C26:thorough,C29:thorough tier=quick class=proved-fin -- MOVE
#[kani::proof]
#[kani::stub(crate::constraints::reg_key::split_registers, split_registers_stub)]
fn c21_move() {
    let mut vm = new_vm();
    let pre = sym_registers(&mut vm);
    let (ra, rb) = (any_reg(), any_reg());
    let mid = after_gas(&pre, COST_move_op);
    let res = op::MOVE::new(ra, rb).execute(&mut vm);
    check_alu(&pre, &vm, res, ra, COST_move_op, plain(mid[ri(rb)]));
    core::mem::forget(vm);
}
//@ props=C21,C25,C26,C29 tier=quick class=proved-fin -- MOVI (all 2^18 immediates)
#[kani::proof]
#[kani::stub(crate::constraints::reg_key::split_registers, split_registers_stub)]
fn c21_movi() {
    let mut vm = new_vm();
    let pre = sym_registers(&mut vm);
    let (ra, imm) = (any_reg(), any_imm18());
    let res = op::MOVI::new(ra, imm).execute(&mut vm);
    check_alu(&pre, &vm, res, ra, COST_movi, plain(imm.to_u32() as Word));
    core::mem::forget(vm);
}
//@ props=C21,C25:thorough,C26:thorough,C29:thorough tier=quick class=proved-fin -- NOOP clears $of/$err, advances pc, changes nothing else
#[kani::proof]
#[kani::stub(crate::constraints::reg_key::split_registers, split_registers_stub)]
fn c21_noop() {
    let mut vm = new_vm();
    let pre = sym_registers(&mut vm);
    let res = op::NOOP::new().execute(&mut vm);
    let post = &vm.registers;
    if COST_noop > pre[R_CGAS] {
        assert!(panic_of(&res) == Some(PanicReason::OutOfGas) && post[R_CGAS] == 0, "C26 out of gas");
    } else {
        assert!(matches!(res, Ok(ExecuteState::Proceed)));
        assert!(post[R_OF] == 0 && post[R_ERR] == 0 && post[R_PC] == pre[R_PC] + 4, "C21 NOOP");
        assert!(post[R_CGAS] == pre[R_CGAS] - COST_noop && post[R_GGAS] == pre[R_GGAS] - COST_noop, "C26 NOOP cost");
        assert!(unchanged_except(&pre, post, &[R_OF, R_ERR, R_PC, R_CGAS, R_GGAS]), "C21 NOOP frame");
    }
    core::mem::forget(vm);
}
//@ props=C21,C25,C26,C29 tier=quick class=proved-fin -- FLAG: valid flag words are 0..=3, anything else InvalidFlags; $of/$err untouched
#[kani::proof]
#[kani::stub(crate::constraints::reg_key::split_registers, split_registers_stub)]
fn c21_flag() {
    let mut vm = new_vm();
    let pre = sym_registers(&mut vm);
    let ra = any_reg();
    let mid = after_gas(&pre, COST_flag);
    let v = mid[ri(ra)];
    let res = op::FLAG::new(ra).execute(&mut vm);
    let post = &vm.registers;
    if COST_flag > pre[R_CGAS] {
        assert!(panic_of(&res) == Some(PanicReason::OutOfGas) && post[R_CGAS] == 0, "C26 out of gas");
        assert!(unchanged_except(&pre, post, &[R_CGAS, R_GGAS]));
    } else if v > 3 {
        assert!(panic_of(&res) == Some(PanicReason::InvalidFlags), "C21 FLAG rejects undefined flag bits");
        assert!(unchanged_except(&pre, post, &[R_CGAS, R_GGAS]), "C21 failed FLAG changes nothing");
    } else {
        assert!(matches!(res, Ok(ExecuteState::Proceed)));
        assert!(post[R_FLAG] == v && post[R_PC] == pre[R_PC] + 4, "C21 FLAG sets $flag");
        assert!(unchanged_except(&pre, post, &[R_FLAG, R_PC, R_CGAS, R_GGAS]), "C21 FLAG frame");
    }
    core::mem::forget(vm);
}

// ---- NIOP: narrow integer operations --------------------------------------------------------------
/// abstract model of u64::checked_pow for NIOP: results range over small and large values and
/// depend on every bit of both arguments, so a changed base or exponent changes the outcome
pub fn checked_pow_model(a: u64, e: u32) -> Option<u64> {
    let v = a.rotate_left(1) ^ (e as u64) ^ 0x2b;
    if ((a >> 3) ^ ((e as u64) >> 5)) & 1 == 1 { None } else { Some(v) }
}
/// NIOP contract for the immediates whose low nibble is `opc_lo..=opc_hi` (split for CBMC).
fn niop_contract(opc_lo: u8, opc_hi: u8) {
    let mut vm = new_vm();
    let pre = sym_registers(&mut vm);
    let (ra, rb, rc, imm) = (any_reg(), any_reg(), any_reg(), any_imm06());
    let bits = imm.to_u8();
    let (opc, wc) = (bits & 0xf, (bits >> 4) & 3);
    kani::assume(opc >= opc_lo && opc <= opc_hi);
    let mid = after_gas(&pre, COST_niop);
    let res = op::NIOP::new(ra, rb, rc, imm).execute(&mut vm);
    if COST_niop <= pre[R_CGAS] && (opc > 5 || wc > 2) {
        assert!(panic_of(&res) == Some(PanicReason::InvalidImmediateValue), "C21 NIOP invalid immediate");
        assert!(unchanged_except(&pre, &vm.registers, &[R_CGAS, R_GGAS]));
    } else {
        let w: u32 = if wc == 0 { 8 } else if wc == 1 { 16 } else { 32 };
        let m: u64 = (1u64 << w) - 1;
        // both operands are truncated to the operation width before anything else
        let (l, r) = (mid[ri(rb)] & m, mid[ri(rc)] & m);
        let (val, of): (u64, u64) = match opc {
            0 => ((l + r) & m, (l + r) >> w),
            1 => (l.wrapping_sub(r) & m, if l < r { u64::MAX } else { 0 }),
            2 => ((l * r) & m, (l * r) >> w),
            3 => match checked_pow_model(l, r as u32) { Some(v) if v >> w == 0 => (v, 0), _ => (0, 1) },
            4 => (if r >= 64 { 0 } else { (l << r) & m }, 0),
            _ => (!(l ^ r) & m, 0),
        };
        let out = if of != 0 && !wrapping(&pre) { Out::Panic(PanicReason::ArithmeticOverflow) } else { Out::Write { val, of, err: 0 } };
        check_alu(&pre, &vm, res, ra, COST_niop, out);
    }
    core::mem::forget(vm);
}
macro_rules! niop_harness {
    ($name:ident, $lo:expr, $hi:expr) => {
        #[kani::proof]
        #[kani::stub(crate::constraints::reg_key::split_registers, split_registers_stub)]
        #[kani::stub(u64::checked_pow, checked_pow_model)]
        fn $name() { niop_contract($lo, $hi); }
    };
}
//@ props=C21,C25,C26,C29 tier=quick class=proved-fin -- NIOP ADD (3 widths + invalid widths): operands truncated to the width, result and $of split at the width
niop_harness!(c21_niop_add, 0, 0);
//@ props=C21,C25:thorough,C26:thorough,C29:thorough tier=quick class=proved-fin -- NIOP SUB: borrow gives $of = all ones
niop_harness!(c21_niop_sub, 1, 1);
//@ props=C21,C25:thorough,C26:thorough,C29:thorough tier=quick class=proved-fin -- NIOP MUL
niop_harness!(c21_niop_mul, 2, 2);
//@ props=C21,C25:thorough,C26:thorough,C29:thorough tier=quick class=proved-fin -- NIOP EXP: result 0 and $of = 1 when it does not fit the width (u64::checked_pow abstracted)
niop_harness!(c21_niop_exp, 3, 3);
//@ props=C21,C25:thorough,C26:thorough,C29:thorough tier=quick class=proved-fin -- NIOP SLL: shift amount is the truncated right operand
niop_harness!(c21_niop_sll, 4, 4);
//@ props=C21,C25:thorough,C26:thorough,C29:thorough tier=quick class=proved-fin -- NIOP XNOR
niop_harness!(c21_niop_xnor, 5, 5);
//@ props=C21,C25:thorough,C26:thorough,C29:thorough tier=quick class=proved-fin -- NIOP undefined operation codes 6..=15 => InvalidImmediateValue
niop_harness!(c21_niop_invalid, 6, 15);

// ---------------------------------------------------------------------------------------------
// C25: control flow.  Targets are computed in unbounded (i128) arithmetic from the instruction-set
// formulas; the instruction must land there or panic with MemoryOverflow when the target falls
// outside memory; an untaken conditional jump advances by one instruction.
// ---------------------------------------------------------------------------------------------
pub fn check_jump(pre: &[Word; 64], vm: &Vm, res: Res, cost: Word, taken: bool, target: i128, link: Option<(RegId, Word)>) {
    let post = &vm.registers;
    assert!(!matches!(res, Err(RuntimeError::Bug(_))), "C29 no internal-bug error");
    assert!(post[R_CGAS] <= post[R_GGAS] && post[R_GGAS] <= pre[R_GGAS], "C26 gas invariants");
    if cost > pre[R_CGAS] {
        assert!(panic_of(&res) == Some(PanicReason::OutOfGas) && post[R_CGAS] == 0, "C26 out of gas");
        assert!(unchanged_except(pre, post, &[R_CGAS, R_GGAS]), "C26 out-of-gas performs no other effect");
        return;
    }
    assert!(post[R_CGAS] == pre[R_CGAS] - cost && post[R_GGAS] == pre[R_GGAS] - cost, "C26 jump consumes exactly the scheduled gas");
    if let Some((r, _)) = link {
        let a = ri(r);
        if a != 0 && a < 16 {
            assert!(panic_of(&res) == Some(PanicReason::ReservedRegisterNotWritable), "C25 JAL refuses a reserved link register");
            assert!(unchanged_except(pre, post, &[R_CGAS, R_GGAS]));
            return;
        }
    }
    if !taken {
        assert!(matches!(res, Ok(ExecuteState::Proceed)), "C25 untaken jump succeeds");
        assert!(post[R_PC] == pre[R_PC] + 4, "C25 untaken conditional jump advances by one instruction");
        assert!(unchanged_except(pre, post, &[R_PC, R_CGAS, R_GGAS]), "C25 untaken jump frame");
        return;
    }
    if target < 0 || target >= VM_MAX_RAM as i128 {
        assert!(panic_of(&res) == Some(PanicReason::MemoryOverflow), "C25 jump target outside memory panics with MemoryOverflow");
        assert!(post[R_PC] == pre[R_PC], "C25 failed jump leaves pc in place");
        return;
    }
    assert!(matches!(res, Ok(ExecuteState::Proceed)), "C25 in-range jump succeeds");
    assert!(post[R_PC] as i128 == target, "C25 jump lands exactly on the specified target");
    match link {
        Some((r, v)) if ri(r) != 0 => {
            assert!(post[ri(r)] == v, "C25 JAL stores the return address");
            assert!(unchanged_except(pre, post, &[ri(r), R_PC, R_CGAS, R_GGAS]), "C25 JAL frame");
        }
        _ => assert!(unchanged_except(pre, post, &[R_PC, R_CGAS, R_GGAS]), "C25 jump changes only pc"),
    }
}

macro_rules! jump_harness {
    ($name:ident, |$vm:ident, $pre:ident, $mid:ident| $cost:expr, $body:block) => {
        #[kani::proof]
        #[kani::stub(crate::constraints::reg_key::split_registers, split_registers_stub)]
        fn $name() {
            let mut $vm = new_vm();
            let $pre = sym_registers(&mut $vm);
            let $mid = after_gas(&$pre, $cost);
            $body;
            core::mem::forget($vm);
        }
    };
}
fn m(x: Word) -> i128 { x as i128 }

//@ props=C25,C26:thorough,C29:thorough tier=quick class=proved-fin -- JI: pc = $is + 4*imm (all 2^24 immediates)
jump_harness!(c25_ji, |vm, pre, mid| COST_ji, {
    let imm = any_imm24();
    let res = op::JI::new(imm).execute(&mut vm);
    check_jump(&pre, &vm, res, COST_ji, true, m(mid[R_IS]) + 4 * m(imm.to_u32() as Word), None);
});
//@ props=C25,C26,C29 tier=quick class=proved-fin -- JNEI
jump_harness!(c25_jnei, |vm, pre, mid| COST_jnei, {
    let (ra, rb, imm) = (any_reg(), any_reg(), any_imm12());
    let res = op::JNEI::new(ra, rb, imm).execute(&mut vm);
    check_jump(&pre, &vm, res, COST_jnei, mid[ri(ra)] != mid[ri(rb)], m(mid[R_IS]) + 4 * m(imm.to_u16() as Word), None);
});
//@ props=C25,C26:thorough,C29:thorough tier=quick class=proved-fin -- JNZI
jump_harness!(c25_jnzi, |vm, pre, mid| COST_jnzi, {
    let (ra, imm) = (any_reg(), any_imm18());
    let res = op::JNZI::new(ra, imm).execute(&mut vm);
    check_jump(&pre, &vm, res, COST_jnzi, mid[ri(ra)] != 0, m(mid[R_IS]) + 4 * m(imm.to_u32() as Word), None);
});
//@ props=C25,C26:thorough,C29:thorough tier=quick class=proved-fin -- JMP: pc = $is + 4*$rA
jump_harness!(c25_jmp, |vm, pre, mid| COST_jmp, {
    let ra = any_reg();
    let res = op::JMP::new(ra).execute(&mut vm);
    check_jump(&pre, &vm, res, COST_jmp, true, m(mid[R_IS]) + 4 * m(mid[ri(ra)]), None);
});
//@ props=C25,C26:thorough,C29:thorough tier=quick class=proved-fin -- JNE
jump_harness!(c25_jne, |vm, pre, mid| COST_jne, {
    let (ra, rb, rc) = (any_reg(), any_reg(), any_reg());
    let res = op::JNE::new(ra, rb, rc).execute(&mut vm);
    check_jump(&pre, &vm, res, COST_jne, mid[ri(ra)] != mid[ri(rb)], m(mid[R_IS]) + 4 * m(mid[ri(rc)]), None);
});
//@ props=C25,C26:thorough,C29:thorough tier=quick class=proved-fin -- JMPF: pc += 4*($rA + imm + 1)
jump_harness!(c25_jmpf, |vm, pre, mid| COST_jmpf, {
    let (ra, imm) = (any_reg(), any_imm18());
    let res = op::JMPF::new(ra, imm).execute(&mut vm);
    check_jump(&pre, &vm, res, COST_jmpf, true, m(mid[R_PC]) + 4 * (m(mid[ri(ra)]) + m(imm.to_u32() as Word) + 1), None);
});
//@ props=C25,C26,C29 tier=quick class=proved-fin -- JMPB: pc -= 4*($rA + imm + 1)
jump_harness!(c25_jmpb, |vm, pre, mid| COST_jmpb, {
    let (ra, imm) = (any_reg(), any_imm18());
    let res = op::JMPB::new(ra, imm).execute(&mut vm);
    check_jump(&pre, &vm, res, COST_jmpb, true, m(mid[R_PC]) - 4 * (m(mid[ri(ra)]) + m(imm.to_u32() as Word) + 1), None);
});
//@ props=C25,C26:thorough,C29:thorough tier=quick class=proved-fin -- JNZF
jump_harness!(c25_jnzf, |vm, pre, mid| COST_jnzf, {
    let (ra, rb, imm) = (any_reg(), any_reg(), any_imm12());
    let res = op::JNZF::new(ra, rb, imm).execute(&mut vm);
    check_jump(&pre, &vm, res, COST_jnzf, mid[ri(ra)] != 0, m(mid[R_PC]) + 4 * (m(mid[ri(rb)]) + m(imm.to_u16() as Word) + 1), None);
});
//@ props=C25,C26:thorough,C29:thorough tier=quick class=proved-fin -- JNZB
jump_harness!(c25_jnzb, |vm, pre, mid| COST_jnzb, {
    let (ra, rb, imm) = (any_reg(), any_reg(), any_imm12());
    let res = op::JNZB::new(ra, rb, imm).execute(&mut vm);
    check_jump(&pre, &vm, res, COST_jnzb, mid[ri(ra)] != 0, m(mid[R_PC]) - 4 * (m(mid[ri(rb)]) + m(imm.to_u16() as Word) + 1), None);
});
//@ props=C25,C26:thorough,C29:thorough tier=quick class=proved-fin -- JNEF
jump_harness!(c25_jnef, |vm, pre, mid| COST_jnef, {
    let (ra, rb, rc, imm) = (any_reg(), any_reg(), any_reg(), any_imm06());
    let res = op::JNEF::new(ra, rb, rc, imm).execute(&mut vm);
    check_jump(&pre, &vm, res, COST_jnef, mid[ri(ra)] != mid[ri(rb)], m(mid[R_PC]) + 4 * (m(mid[ri(rc)]) + m(imm.to_u8() as Word) + 1), None);
});
//@ props=C25,C26:thorough,C29:thorough tier=quick class=proved-fin -- JNEB
jump_harness!(c25_jneb, |vm, pre, mid| COST_jneb, {
    let (ra, rb, rc, imm) = (any_reg(), any_reg(), any_reg(), any_imm06());
    let res = op::JNEB::new(ra, rb, rc, imm).execute(&mut vm);
    check_jump(&pre, &vm, res, COST_jneb, mid[ri(ra)] != mid[ri(rb)], m(mid[R_PC]) - 4 * (m(mid[ri(rc)]) + m(imm.to_u8() as Word) + 1), None);
});
//@ props=C25,C26,C29 tier=quick class=proved-fin -- JAL: $rA = pc + 4 (discarded for $zero, reserved registers refused), pc = $rB + 4*imm; charged as jmp (the schedule has no jal entry)
jump_harness!(c25_jal, |vm, pre, mid| COST_jmp, {
    let (ra, rb, imm) = (any_reg(), any_reg(), any_imm12());
    let res = op::JAL::new(ra, rb, imm).execute(&mut vm);
    // the target register is read after the link register has been written
    let base = if ra == rb && ri(ra) >= 16 { mid[R_PC] + 4 } else { mid[ri(rb)] };
    check_jump(&pre, &vm, res, COST_jmp, true, m(base) + 4 * m(imm.to_u16() as Word), Some((ra, mid[R_PC] + 4)));
});

// ---------------------------------------------------------------------------------------------
// C26: the gas-charging primitive, full domain
// ---------------------------------------------------------------------------------------------
//@ props=C26 tier=quick class=proved-fin -- gas_charge(cgas, ggas, cost) for all u64 triples with cgas <= ggas: affordable => both decrease by cost; else OutOfGas, cgas' = 0, ggas' = ggas - cgas; cgas' <= ggas' and ggas' <= ggas always
#[kani::proof]
fn c26_gas_charge() {
    let mut cgas: Word = kani::any();
    let mut ggas: Word = kani::any();
    let cost: Word = kani::any();
    kani::assume(cgas <= ggas);
    let (c0, g0) = (cgas, ggas);
    let r = crate::interpreter::gas::gas_charge(RegMut::new(&mut cgas), RegMut::new(&mut ggas), cost);
    if cost <= c0 {
        assert!(r.is_ok(), "C26 affordable charge succeeds");
        assert!(cgas == c0 - cost && ggas == g0 - cost, "C26 both gas registers decrease by exactly the cost");
    } else {
        assert!(matches!(r, Err(crate::error::PanicOrBug::Panic(PanicReason::OutOfGas))), "C26 out of gas exactly when cost exceeds context gas");
        assert!(cgas == 0 && ggas == g0 - c0, "C26 out of gas leaves context gas at zero and burns it from global gas");
    }
    assert!(cgas <= ggas && ggas <= g0, "C26 context gas never exceeds global gas; global gas never increases");
}

// ---- MLDV: fused multiply-divide. `muldiv` itself is proved in Verus (unit c21_muldiv); here it is
// replaced by an abstract model and the instruction glue is proved.
pub fn muldiv_model(a: u64, b: u64, d: u64) -> (u64, u64) {
    let r = (a ^ b.rotate_left(23) ^ d.rotate_left(47)).wrapping_add(0x9e37_79b9_7f4a_7c15);
    (r, if r & 0x10 != 0 { r >> 7 } else { 0 })
}
//@ props=C21,C25,C26,C29 tier=quick class=proved-fin -- MLDV glue: $rA = low word, $of = high word of (b*c)/d, ArithmeticOverflow unless WRAPPING when the quotient exceeds 64 bits; reserved destination refused before any effect (muldiv abstracted; proved in Verus unit c21_muldiv)
#[kani::proof]
#[kani::stub(crate::constraints::reg_key::split_registers, split_registers_stub)]
#[kani::stub(crate::interpreter::alu::muldiv::muldiv, muldiv_model)]
fn c21_mldv() {
    let mut vm = new_vm();
    let pre = sym_registers(&mut vm);
    let (ra, rb, rc, rd) = (any_reg(), any_reg(), any_reg(), any_reg());
    let mid = after_gas(&pre, COST_mldv);
    let res = op::MLDV::new(ra, rb, rc, rd).execute(&mut vm);
    let (val, of) = muldiv_model(mid[ri(rb)], mid[ri(rc)], mid[ri(rd)]);
    let out = if of != 0 && !wrapping(&pre) { Out::Panic(PanicReason::ArithmeticOverflow) } else { Out::Write { val, of, err: 0 } };
    check_alu(&pre, &vm, res, ra, COST_mldv, out);
    core::mem::forget(vm);
}

// ---------------------------------------------------------------------------------------------
// C24 / C23: memory instructions on a small concrete layout: stack extent 16 bytes (symbolic
// contents), heap of 8 bytes at the top of memory, no call frame (prev_hp = VM_MAX_RAM).  Addresses,
// values, immediates, $ssp/$sp and gas are fully symbolic.
// ---------------------------------------------------------------------------------------------
pub const STK: u64 = 16;
pub const HPV: u64 = VM_MAX_RAM - 8;

pub fn vm_with_memory() -> (Vm, [Word; 64], [u8; 24]) {
    let mut vm = new_vm();
    let init: [u8; 24] = kani::any();
    vm.memory.grow_stack(STK).unwrap();
    {
        let sp: Word = STK;
        let mut hp: Word = VM_MAX_RAM;
        vm.memory.grow_heap_by(Reg::new(&sp), RegMut::new(&mut hp), 8).unwrap();
    }
    vm.memory.write_bytes_noownerchecks(0u64, <[u8; 16]>::try_from(&init[..16]).unwrap()).unwrap();
    vm.memory.write_bytes_noownerchecks(HPV, <[u8; 8]>::try_from(&init[16..]).unwrap()).unwrap();
    let mut r: [Word; 64] = kani::any();
    kani::assume(r[R_ZERO] == 0 && r[R_ONE] == 1 && r[R_FLAG] < 4 && r[R_CGAS] <= r[R_GGAS]);
    kani::assume(r[R_PC] <= VM_MAX_RAM && r[R_PC] % 4 == 0 && r[R_IS] <= r[R_PC]);
    kani::assume(r[R_FP] <= r[R_SSP] && r[R_SSP] <= r[R_SP] && r[R_SP] <= STK);
    r[R_HP] = HPV;
    vm.registers = r;
    (vm, r, init)
}
/// byte of the initial memory image at absolute address a (a < 16 or a >= HPV)
pub fn img(init: &[u8; 24], a: u64) -> u8 { if a < STK { init[a as usize] } else { init[(16 + (a - HPV)) as usize] } }
pub fn cur(vm: &Vm, a: u64) -> u8 { vm.memory.read_bytes::<_, 1>(a).unwrap()[0] }
pub fn accessible(s: u128, e: u128) -> bool { e <= VM_MAX_RAM as u128 && (e <= STK as u128 || s >= HPV as u128) }
/// the ownership rule of the statement; empty ranges follow the documented edge rule (proved for the
/// real predicate by c24_ownership)
pub fn owned(pre: &[Word; 64], s: u128, e: u128) -> bool {
    let (ssp, sp, hp, php) = (pre[R_SSP] as u128, pre[R_SP] as u128, HPV as u128, VM_MAX_RAM as u128);
    if s < e { (ssp <= s && e <= sp) || (hp <= s && e <= php) }
    else { s == ssp || (ssp <= s && s < sp) || s == hp || (hp <= s && s <= php) }
}
/// memory equals the initial image except inside [lo, hi), where it equals `f(offset)`
pub fn mem_is(vm: &Vm, init: &[u8; 24], lo: u128, hi: u128, f: &dyn Fn(u64) -> u8) -> bool {
    let mut ok = true;
    let mut k: u64 = 0;
    while k < 24 {
        let a = if k < 16 { k } else { HPV + (k - 16) };
        let want = if (a as u128) >= lo && (a as u128) < hi { f(a - lo as u64) } else { img(init, a) };
        if cur(vm, a) != want { ok = false; }
        k += 1;
    }
    ok
}

/// Contract shared by every instruction that writes `len` bytes at `addr`:
/// refused (specified reason) with memory bit-for-bit unchanged unless the range is inside memory,
/// accessible and owned; otherwise exactly [addr, addr+len) changes to the specified bytes.
pub fn check_write(pre: &[Word; 64], vm: &Vm, init: &[u8; 24], res: Res, cost: Word, addr: u128, len: u128, f: &dyn Fn(u64) -> u8) {
    let post = &vm.registers;
    assert!(!matches!(res, Err(RuntimeError::Bug(_))), "C29 no internal-bug error");
    assert!(post[R_CGAS] <= post[R_GGAS] && post[R_GGAS] <= pre[R_GGAS], "C26 gas invariants");
    if cost > pre[R_CGAS] {
        assert!(panic_of(&res) == Some(PanicReason::OutOfGas) && post[R_CGAS] == 0, "C26 out of gas");
        assert!(unchanged_except(pre, post, &[R_CGAS, R_GGAS]) && mem_is(vm, init, 0, 0, f), "C26 out-of-gas performs no other effect");
        return;
    }
    assert!(post[R_CGAS] == pre[R_CGAS] - cost && post[R_GGAS] == pre[R_GGAS] - cost, "C26 exact charge");
    let end = addr + len;
    let expect = if addr > u64::MAX as u128 || end > VM_MAX_RAM as u128 { Some(PanicReason::MemoryOverflow) }
        else if !accessible(addr, end) { Some(PanicReason::UninitalizedMemoryAccess) }
        else if !owned(pre, addr, end) { Some(PanicReason::MemoryOwnership) }
        else { None };
    match expect {
        Some(p) => {
            assert!(panic_of(&res) == Some(p), "C24 write outside owned/accessible memory panics with the specified reason");
            assert!(mem_is(vm, init, 0, 0, f), "C24 a refused write leaves memory bit-for-bit unchanged");
            assert!(unchanged_except(pre, post, &[R_CGAS, R_GGAS]), "C24 a refused write changes no register");
        }
        None => {
            assert!(matches!(res, Ok(ExecuteState::Proceed)), "C24 owned write succeeds");
            assert!(mem_is(vm, init, addr, end, f), "C24 only bytes inside the written range change, to the specified values");
            assert!(post[R_PC] == pre[R_PC] + 4, "C25 pc + 4");
            assert!(unchanged_except(pre, post, &[R_PC, R_CGAS, R_GGAS]), "C24 store changes no other register");
        }
    }
}

macro_rules! store_harness {
    ($name:ident, $Op:ident, $cost:expr, $w:expr) => {
        #[kani::proof]
        #[kani::unwind(300)]
        #[kani::stub(crate::constraints::reg_key::split_registers, split_registers_stub)]
        fn $name() {
            let (mut vm, pre, init) = vm_with_memory();
            let (ra, rb, imm) = (any_reg(), any_reg(), any_imm12());
            let mid = after_gas(&pre, $cost);
            let res = op::$Op::new(ra, rb, imm).execute(&mut vm);
            let addr = mid[ri(ra)] as u128 + (imm.to_u16() as u128) * $w;
            let val = mid[ri(rb)];
            // big-endian, truncated to the access width
            let f = move |off: u64| -> u8 { ((val >> (8 * ($w as u64 - 1 - off))) & 0xff) as u8 };
            check_write(&pre, &vm, &init, res, $cost, addr, $w, &f);
            core::mem::forget(vm);
        }
    };
}
//@ props=C24,C23:thorough,C25:thorough,C26:thorough,C29:thorough tier=quick class=bounded(regions=16+8) timeout=1500 -- SB: byte store at $rA + imm, ownership/accessibility/overflow reasons, frame on memory and registers
store_harness!(c24_sb, SB, COST_sb, 1u128);
//@ props=C24,C23:thorough,C25:thorough,C26:thorough,C29:thorough tier=quick class=bounded(regions=16+8) timeout=1500 -- SW: 8-byte big-endian store at $rA + 8*imm (charged as sw)
store_harness!(c24_sw, SW, COST_sw, 8u128);
//@ props=C24:thorough,C23:thorough tier=thorough class=bounded(regions=16+8) timeout=1500 -- SHW (half word): 4-byte store at $rA + 4*imm (charged as sw)
store_harness!(c24_shw, SHW, COST_sw, 4u128);
//@ props=C24:thorough,C23:thorough tier=thorough class=bounded(regions=16+8) timeout=1500 -- SQW (quarter word): 2-byte store at $rA + 2*imm (charged as sw)
store_harness!(c24_sqw, SQW, COST_sw, 2u128);

//@ props=C24,C23:thorough,C26:thorough,C29:thorough tier=quick class=bounded(regions=16+8) timeout=1500 -- MCL: clears exactly [$rA, $rA+$rB) when owned, dependent cost mcl(len), otherwise refused with memory unchanged
#[kani::proof]
#[kani::unwind(300)]
#[kani::stub(crate::constraints::reg_key::split_registers, split_registers_stub)]
fn c24_mcl() {
    let (mut vm, pre, init) = vm_with_memory();
    let (ra, rb) = (any_reg(), any_reg());
    // MCL reads its operands before charging (the charge depends on the length)
    let (a, len) = (pre[ri(ra)], pre[ri(rb)]);
    let cost = spec_resolve(COST_mcl, len);
    let res = op::MCL::new(ra, rb).execute(&mut vm);
    let f = |_off: u64| -> u8 { 0 };
    // the address operand is read after the charge
    let a_eff = after_gas(&pre, cost)[ri(ra)];
    check_write(&pre, &vm, &init, res, cost, a_eff as u128, len as u128, &f);
    core::mem::forget(vm);
}

//@ props=C23,C25:thorough,C29:thorough tier=quick class=bounded(regions=16+8) timeout=1500 -- LW: $rA = big-endian word at $rB + 8*imm if those 8 bytes are accessible (no ownership needed), else the read error; reserved destination refused; memory unchanged
#[kani::proof]
#[kani::unwind(300)]
#[kani::stub(crate::constraints::reg_key::split_registers, split_registers_stub)]
fn c23_lw() {
    let (mut vm, pre, init) = vm_with_memory();
    let (ra, rb, imm) = (any_reg(), any_reg(), any_imm12());
    let mid = after_gas(&pre, COST_lw);
    let res = op::LW::new(ra, rb, imm).execute(&mut vm);
    let post = &vm.registers;
    let addr = mid[ri(rb)] as u128 + (imm.to_u16() as u128) * 8;
    let f = |_o: u64| -> u8 { 0 };
    assert!(mem_is(&vm, &init, 0, 0, &f), "C23 a load never changes memory");
    if COST_lw > pre[R_CGAS] {
        assert!(panic_of(&res) == Some(PanicReason::OutOfGas));
    } else if ri(ra) < 16 {
        assert!(panic_of(&res) == Some(PanicReason::ReservedRegisterNotWritable), "C21 reserved destination");
        assert!(unchanged_except(&pre, post, &[R_CGAS, R_GGAS]));
    } else if addr > u64::MAX as u128 || addr + 8 > VM_MAX_RAM as u128 {
        assert!(panic_of(&res) == Some(PanicReason::MemoryOverflow), "C23 read beyond memory");
    } else if !accessible(addr, addr + 8) {
        assert!(panic_of(&res) == Some(PanicReason::UninitalizedMemoryAccess), "C23 read of the gap or spanning both regions");
    } else {
        assert!(matches!(res, Ok(ExecuteState::Proceed)));
        let mut want: u64 = 0;
        let mut k = 0;
        while k < 8 { want = (want << 8) | img(&init, addr as u64 + k) as u64; k += 1; }
        assert!(post[ri(ra)] == want, "C23 loaded word = big-endian bytes of the flat array");
        assert!(post[R_PC] == pre[R_PC] + 4, "C25 pc + 4");
        assert!(unchanged_except(&pre, post, &[ri(ra), R_PC, R_CGAS, R_GGAS]));
    }
    core::mem::forget(vm);
}

// ---------------------------------------------------------------------------------------------
// C22: 128-bit wide-integer instructions on a 48-byte stack (three 16-byte slots, symbolic contents)
// ---------------------------------------------------------------------------------------------
pub const WSTK: u64 = 48;
pub fn vm_wide() -> (Vm, [Word; 64], [u8; 48]) {
    let mut vm = new_vm();
    let init: [u8; 48] = kani::any();
    vm.memory.grow_stack(WSTK).unwrap();
    vm.memory.write_bytes_noownerchecks(0u64, init).unwrap();
    let mut r: [Word; 64] = kani::any();
    kani::assume(r[R_ZERO] == 0 && r[R_ONE] == 1 && r[R_FLAG] < 4 && r[R_CGAS] <= r[R_GGAS]);
    kani::assume(r[R_PC] <= VM_MAX_RAM && r[R_PC] % 4 == 0 && r[R_IS] <= r[R_PC]);
    kani::assume(r[R_FP] <= r[R_SSP] && r[R_SSP] <= r[R_SP] && r[R_SP] <= WSTK);
    r[R_HP] = VM_MAX_RAM;
    vm.registers = r;
    (vm, r, init)
}
fn be128(init: &[u8; 48], a: u64) -> u128 {
    let mut v: u128 = 0;
    let mut k = 0;
    while k < 16 { v = (v << 8) | init[(a + k) as usize] as u128; k += 1; }
    v
}
fn readable16(a: u64) -> bool { a <= WSTK - 16 }

//@ props=C22,C29:thorough tier=quick class=bounded(stack=48) timeout=2400 -- WDCM: all 64 immediates (7 modes x direct/indirect, invalid => InvalidImmediateValue), left operand big-endian from memory, right operand from memory or the register, result in $rA, $of = $err = 0, memory unchanged, reserved destination refused
#[kani::proof]
#[kani::unwind(70)]
#[kani::stub(crate::constraints::reg_key::split_registers, split_registers_stub)]
fn c22_wdcm() {
    let (mut vm, pre, init) = vm_wide();
    let (ra, rb, rc, imm) = (any_reg(), any_reg(), any_reg(), any_imm06());
    let mid = after_gas(&pre, COST_wdcm);
    let res = op::WDCM::new(ra, rb, rc, imm).execute(&mut vm);
    let bits = imm.to_u8();
    let (mode, reserved, indirect) = (bits & 7, (bits >> 3) & 3, (bits >> 5) & 1 == 1);
    let post = &vm.registers;
    let (b, c) = (mid[ri(rb)], mid[ri(rc)]);
    if COST_wdcm > pre[R_CGAS] { assert!(panic_of(&res) == Some(PanicReason::OutOfGas)); }
    else if reserved != 0 || mode > 6 {
        assert!(panic_of(&res) == Some(PanicReason::InvalidImmediateValue), "C22 invalid compare immediate");
        assert!(unchanged_except(&pre, post, &[R_CGAS, R_GGAS]));
    } else if ri(ra) < 16 {
        assert!(panic_of(&res) == Some(PanicReason::ReservedRegisterNotWritable), "C22 reserved destination");
    } else if !readable16(b) || (indirect && !readable16(c)) {
        assert!(matches!(panic_of(&res), Some(PanicReason::MemoryOverflow) | Some(PanicReason::UninitalizedMemoryAccess)), "C22 unreadable operand panics with a memory reason");
        assert!(unchanged_except(&pre, post, &[R_CGAS, R_GGAS]));
    } else {
        let l = be128(&init, b);
        let r = if indirect { be128(&init, c) } else { c as u128 };
        let want: Word = match mode { 0 => (l == r) as Word, 1 => (l != r) as Word, 2 => (l < r) as Word, 3 => (l > r) as Word,
                                      4 => (l <= r) as Word, 5 => (l >= r) as Word, _ => l.leading_zeros() as Word };
        assert!(matches!(res, Ok(ExecuteState::Proceed)), "C22 WDCM succeeds");
        assert!(post[ri(ra)] == want, "C22 WDCM result: operands read big-endian, compared as 128-bit integers");
        assert!(post[R_OF] == 0 && post[R_ERR] == 0 && post[R_PC] == pre[R_PC] + 4, "C22 $of, $err cleared; pc + 4");
        assert!(unchanged_except(&pre, post, &[ri(ra), R_OF, R_ERR, R_PC, R_CGAS, R_GGAS]));
    }
    let mut k = 0;
    while k < 48 { assert!(vm.memory.read_bytes::<_, 1>(k as u64).unwrap()[0] == init[k], "C22 compare never writes memory"); k += 1; }
    core::mem::forget(vm);
}

//@ props=C22,C24:thorough,C29:thorough tier=quick class=bounded(stack=48) timeout=3000 -- WDOP: all 64 immediates (ADD SUB NOT OR XOR AND SHL SHR x direct/indirect; undefined => InvalidImmediateValue), operands big-endian from memory / register, 128-bit result written big-endian to owned memory at $rA, $of = carry/borrow, ArithmeticOverflow unless WRAPPING, shifts >= 128 give zero; unowned destination refused with memory unchanged
#[kani::proof]
#[kani::unwind(70)]
#[kani::stub(crate::constraints::reg_key::split_registers, split_registers_stub)]
fn c22_wdop() {
    let (mut vm, pre, init) = vm_wide();
    let (ra, rb, rc, imm) = (any_reg(), any_reg(), any_reg(), any_imm06());
    let mid = after_gas(&pre, COST_wdop);
    let res = op::WDOP::new(ra, rb, rc, imm).execute(&mut vm);
    let bits = imm.to_u8();
    let (opc, indirect) = (bits & 31, (bits >> 5) & 1 == 1);
    let post = &vm.registers;
    let (dst, b, c) = (mid[ri(ra)], mid[ri(rb)], mid[ri(rc)]);
    let mem_same = |vm: &Vm| -> bool { let mut ok = true; let mut k = 0; while k < 48 { if vm.memory.read_bytes::<_, 1>(k as u64).unwrap()[0] != init[k] { ok = false; } k += 1; } ok };
    if COST_wdop > pre[R_CGAS] { assert!(panic_of(&res) == Some(PanicReason::OutOfGas) && mem_same(&vm)); }
    else if opc > 7 {
        assert!(panic_of(&res) == Some(PanicReason::InvalidImmediateValue) && mem_same(&vm), "C22 invalid math immediate");
    } else if !readable16(b) || (indirect && !readable16(c)) {
        assert!(matches!(panic_of(&res), Some(PanicReason::MemoryOverflow) | Some(PanicReason::UninitalizedMemoryAccess)) && mem_same(&vm), "C22 unreadable operand");
    } else {
        let l = be128(&init, b);
        let r = if indirect { be128(&init, c) } else { c as u128 };
        let (val, of): (u128, bool) = match opc {
            0 => { let s = l.wrapping_add(r); (s, s < l) }
            1 => (l.wrapping_sub(r), l < r),
            2 => (!l, false),
            3 => (l | r, false),
            4 => (l ^ r, false),
            5 => (l & r, false),
            6 => (if r >= 128 { 0 } else { l << r }, false),
            _ => (if r >= 128 { 0 } else { l >> r }, false),
        };
        if of && !wrapping(&pre) {
            assert!(panic_of(&res) == Some(PanicReason::ArithmeticOverflow) && mem_same(&vm), "C22 overflow without WRAPPING panics and writes nothing");
        } else {
            let writable = dst <= WSTK - 16 && pre[R_SSP] <= dst && dst + 16 <= pre[R_SP];
            if !writable {
                assert!(matches!(panic_of(&res), Some(PanicReason::MemoryOwnership) | Some(PanicReason::MemoryOverflow) | Some(PanicReason::UninitalizedMemoryAccess)), "C24 unowned / unmapped destination is refused");
                assert!(mem_same(&vm), "C24 a refused wide write leaves memory unchanged");
            } else {
                assert!(matches!(res, Ok(ExecuteState::Proceed)), "C22 WDOP succeeds");
                let mut k = 0;
                while k < 48 {
                    let a = k as u64;
                    let want = if a >= dst && a < dst + 16 { ((val >> (8 * (15 - (a - dst)))) & 0xff) as u8 } else { init[k] };
                    assert!(vm.memory.read_bytes::<_, 1>(a).unwrap()[0] == want, "C22 result written big-endian to exactly the 16 destination bytes");
                    k += 1;
                }
                assert!(post[R_OF] == of as Word && post[R_ERR] == 0 && post[R_PC] == pre[R_PC] + 4, "C22 $of = carry/borrow, $err = 0, pc + 4");
                assert!(unchanged_except(&pre, post, &[R_OF, R_ERR, R_PC, R_CGAS, R_GGAS]));
            }
        }
    }
    core::mem::forget(vm);
}
