//! Kani harnesses for GM (child of `interpreter::metadata`).
#![allow(clippy::all, unused_imports, dead_code)]
use super::*;
use crate::consts::*;
use fuel_asm::{PanicReason, RegId};

//@ props=C05 tier=quick class=proved-fin timeout=1200 -- GM (metadata): all 2^18 selector immediates and script and call contexts (with 0 or 1 frame): chain id, base-asset pointer, tx start, gas price and owner return the configured values; caller queries follow the frame's saved $fp; undefined selectors => InvalidMetadataIdentifier; panics exactly as specified; pc + 4 only on success
#[kani::proof]
#[kani::unwind(70)]
fn c05_gm_metadata() {
    let imm: u32 = kani::any();
    kani::assume(imm < (1 << 18));
    let kind: u8 = kani::any();
    kani::assume(kind < 2); // an initialised VM: script or call context (predicate contexts: see note in the registry)
    let bh: u32 = kani::any();
    let context = match kind { 0 => Context::Script { block_height: bh.into() }, 1 => Context::Call { block_height: bh.into() }, _ => Context::NotInitialized };
    let saved_fp: Word = kani::any();
    let has_frame: bool = kani::any();
    let mut frames: Vec<CallFrame> = Vec::with_capacity(1);
    if has_frame {
        let mut r = [0 as Word; VM_REGISTER_COUNT];
        r[6] = saved_fp; // $fp
        frames.push(CallFrame::new(Default::default(), Default::default(), r, 8, 0, 0).unwrap());
    }
    let chain: u64 = kani::any();
    let (tx_offset, gas_price): (Word, Word) = (kani::any(), kani::any());
    let owner: Option<Word> = if kani::any() { Some(kani::any()) } else { None };
    let mut pc: Word = kani::any();
    kani::assume(pc <= VM_MAX_RAM);
    let pc0 = pc;
    let mut result: Word = kani::any();
    let res0 = result;
    let r = metadata(&context, &frames, RegMut::new(&mut pc), &mut result, imm, chain.into(), tx_offset, gas_price, owner);
    // the caller's frame pointer as GM sees it: only in an internal (call) context
    let parent: Option<Word> = if kind == 1 { if has_frame { Some(saved_fp) } else { None } } else { None };
    let expect: Result<Word, PanicReason> = match imm {
        0x01 => match parent { Some(p) => Ok((p == 0) as Word), None => Err(PanicReason::ExpectedInternalContext) },
        0x02 => match parent { Some(0) => Err(PanicReason::ExpectedNestedCaller), Some(p) => Ok(p), None => Err(PanicReason::ExpectedInternalContext) },
        0x03 => Err(PanicReason::TransactionValidity), // no predicate is being verified in these contexts
        0x04 => Ok(chain),
        0x05 => Ok(tx_offset),
        0x06 => Ok(32), // the base asset id sits right after the 32-byte tx id at the bottom of memory
        0x07 => Ok(gas_price),
        0x08 => match owner { Some(p) => Ok(p), None => Err(PanicReason::OwnerIsUnknown) },
        _ => Err(PanicReason::InvalidMetadataIdentifier),
    };
    match expect {
        Ok(v) => {
            assert!(r.is_ok(), "C05 defined metadata query succeeds");
            assert!(result == v, "C05 metadata query returns the configured value");
            assert!(pc == pc0 + 4, "C25 pc + 4");
        }
        Err(p) => {
            assert!(matches!(r, Err(crate::error::PanicOrBug::Panic(q)) if q == p), "C05 metadata query fails with the specified panic");
            assert!(pc == pc0 && result == res0, "C05 a failed query changes nothing");
        }
    }
    core::mem::forget(frames);
}
