//! Kani harnesses for the immediate-argument decoders of fuel-asm (wide-int, GM, GTF).
#![allow(clippy::all, unused_imports, dead_code)]
use crate::*;
use crate::wideint::*;

//@ props=C22 tier=quick class=proved-fin -- wide-int argument decoders over all 64 immediates: CompareArgs (mode 0..=6, bits 3-4 reserved, bit 5 indirect), MathArgs (op 0..=7 in bits 0-4, bit 5 indirect), MulArgs (bits 4/5, low nibble reserved), DivArgs (bit 5, rest reserved); to_imm is the inverse
#[kani::proof]
fn c22_arg_decoders() {
    let b: u8 = kani::any();
    kani::assume(b < 64);
    let imm = Imm06::new(b);
    match CompareArgs::from_imm(imm) {
        Some(a) => { assert!((b >> 3) & 3 == 0 && (b & 7) <= 6, "C22 CompareArgs valid set"); assert!(a.mode as u8 == b & 7 && a.indirect_rhs == ((b >> 5) & 1 == 1)); assert!(a.to_imm().to_u8() == b); }
        None => assert!((b >> 3) & 3 != 0 || (b & 7) == 7, "C22 CompareArgs rejects exactly the undefined encodings"),
    }
    match MathArgs::from_imm(imm) {
        Some(a) => { assert!((b & 31) <= 7, "C22 MathArgs valid set"); assert!(a.op as u8 == b & 31 && a.indirect_rhs == ((b >> 5) & 1 == 1)); assert!(a.to_imm().to_u8() == b); }
        None => assert!((b & 31) > 7, "C22 MathArgs rejects exactly the undefined operations"),
    }
    match MulArgs::from_imm(imm) {
        Some(a) => { assert!(b & 15 == 0); assert!(a.indirect_lhs == ((b >> 4) & 1 == 1) && a.indirect_rhs == ((b >> 5) & 1 == 1)); assert!(a.to_imm().to_u8() == b); }
        None => assert!(b & 15 != 0, "C22 MulArgs rejects exactly non-zero reserved bits"),
    }
    match DivArgs::from_imm(imm) {
        Some(a) => { assert!(b & 31 == 0); assert!(a.indirect_rhs == ((b >> 5) & 1 == 1)); assert!(a.to_imm().to_u8() == b); }
        None => assert!(b & 31 != 0, "C22 DivArgs rejects exactly non-zero reserved bits"),
    }
}

//@ props=C05 tier=quick class=proved-fin -- selector decoding: GMArgs::try_from over all 2^18 immediates is defined exactly on 0x01..=0x08, GTFArgs::try_from over all 2^12 immediates is defined exactly on the discriminants of the enum, each decoding back to its code; everything else is InvalidMetadataIdentifier
#[kani::proof]
fn c05_selector_decoding() {
    let a: u32 = kani::any();
    kani::assume(a < (1 << 18));
    match GMArgs::try_from(a) {
        Ok(g) => { assert!(a >= 1 && a <= 8, "C05 GM selectors are 0x01..=0x08"); assert!(g as u32 == a); }
        Err(e) => { assert!(a == 0 || a > 8); assert!(e == PanicReason::InvalidMetadataIdentifier); }
    }
    let b: u16 = kani::any();
    kani::assume(b < (1 << 12));
    match GTFArgs::try_from(b) {
        Ok(g) => assert!(g as u16 == b, "C05 a GTF selector decodes to the variant with that code"),
        Err(e) => assert!(e == PanicReason::InvalidMetadataIdentifier, "C05 undefined GTF selector"),
    }
}
