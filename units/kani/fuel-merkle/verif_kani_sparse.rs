//! Kani harnesses for sparse Merkle proof verification (child of `sparse::proof`).
#![allow(clippy::all, unused_imports, dead_code)]
use super::*;
use crate::sparse::MerkleTreeKey;

// term-algebra-like hash models (the real functions are SHA-256 with 0x00/0x01 prefixes: ASSUMED
// functions of their inputs); non-commutative so a swapped child order is visible
pub fn leaf_model(k: &Bytes32, v: &Bytes32) -> Bytes32 { let mut o = [0u8; 32]; o[0] = k[0].wrapping_mul(7) ^ v[0].wrapping_mul(13) ^ 0x3c; o[1] = k[31]; o[2] = v[1]; o }
pub fn node_model(l: &Bytes32, r: &Bytes32) -> Bytes32 { let mut o = [0u8; 32]; o[0] = l[0].wrapping_mul(3) ^ r[0].wrapping_mul(5) ^ 0xa5; o[1] = l[0]; o[2] = r[0]; o[3] = l[1] ^ r[2]; o }
pub fn sum_model(d: &[u8]) -> Bytes32 { let mut o = [0u8; 32]; o[0] = if d.is_empty() { 0x11 } else { d[0] ^ 0x5a }; o[1] = d.len() as u8; o }

/// spec: bit `idx` of the key counted from the most significant bit
fn bit(key: &[u8; 32], idx: usize) -> u8 { (key[idx / 8] >> (7 - idx % 8)) & 1 }
/// spec: fold the proof set from the leaf upwards; proof element i sits at depth len-1-i, and the
/// key bit at that depth tells whether the current node is the left (0) or the right (1) child
fn spec_fold(key: &[u8; 32], start: Bytes32, proof: &[Bytes32]) -> Bytes32 {
    let mut cur = start;
    let mut i = 0;
    while i < proof.len() {
        let depth = proof.len() - 1 - i;
        cur = if bit(key, depth) == 0 { node_model(&cur, &proof[i]) } else { node_model(&proof[i], &cur) };
        i += 1;
    }
    cur
}
fn any_proof() -> Vec<Bytes32> {
    let n: usize = kani::any();
    kani::assume(n <= 3);
    let mut v = Vec::with_capacity(3);
    let mut i = 0;
    while i < n { let mut h = [0u8; 32]; h[0] = kani::any(); h[1] = kani::any(); h[2] = kani::any(); v.push(h); i += 1; }
    v
}

//@ props=C14 tier=quick class=bounded(proof<=3) timeout=1500 -- InclusionProof::verify == (fold(key, leaf_hash(key, H(value)), proof) == root) for every key, root and proof set of length <= 3 (hashes abstracted)
#[kani::proof]
#[kani::unwind(40)]
#[kani::stub(crate::sparse::hash::calculate_leaf_hash, leaf_model)]
#[kani::stub(crate::sparse::hash::calculate_node_hash, node_model)]
#[kani::stub(crate::common::sum, sum_stub)]
fn c14_inclusion_verify() {
    let key: [u8; 32] = kani::any();
    let root: [u8; 32] = kani::any();
    let proof = any_proof();
    let vh: [u8; 32] = kani::any();
    // value hashing is external (`sum`): abstracted by handing verify a value whose hash is vh via the model below
    let p = InclusionProof { proof_set: proof.clone() };
    let got = inclusion_verify_with_value_hash(&p, &root, &key, &vh);
    let want = spec_fold(&key, leaf_model(&key, &vh), &proof) == root;
    assert!(got == want, "C14 inclusion verifier accepts exactly when the recomputation reaches the root");
    core::mem::forget(p); core::mem::forget(proof);
}
/// InclusionProof::verify hashes the value with `sum` first; to keep SHA-256 out of the harness the
/// call goes through a stub of `sum` that returns the symbolic digest stored in a static.
static mut VALUE_HASH: Bytes32 = [0u8; 32];
pub fn sum_stub<T: AsRef<[u8]>>(_data: T) -> Bytes32 { unsafe { VALUE_HASH } }
fn inclusion_verify_with_value_hash(p: &InclusionProof, root: &Bytes32, key: &[u8; 32], vh: &Bytes32) -> bool {
    unsafe { VALUE_HASH = *vh; }
    p.verify(root, &unsafe { MerkleTreeKey::convert(*key) }, &[])
}

//@ props=C14 tier=quick class=bounded(proof<=3) timeout=1500 -- ExclusionProof::verify: false when the exclusion leaf carries the queried key; otherwise == (fold(key, leaf hash or zero placeholder, proof) == root)
#[kani::proof]
#[kani::unwind(40)]
#[kani::stub(crate::sparse::hash::calculate_leaf_hash, leaf_model)]
#[kani::stub(crate::sparse::hash::calculate_node_hash, node_model)]
fn c14_exclusion_verify() {
    let key: [u8; 32] = kani::any();
    let root: [u8; 32] = kani::any();
    let proof = any_proof();
    let placeholder: bool = kani::any();
    let (lk, lv): ([u8; 32], [u8; 32]) = (kani::any(), kani::any());
    let leaf = if placeholder { ExclusionLeaf::Placeholder } else { ExclusionLeaf::Leaf(ExclusionLeafData { leaf_key: lk, leaf_value: lv }) };
    let p = ExclusionProof { proof_set: proof.clone(), leaf };
    let got = p.verify(&root, &unsafe { MerkleTreeKey::convert(key) });
    let want = if !placeholder && lk == key { false }
               else { spec_fold(&key, if placeholder { [0u8; 32] } else { leaf_model(&lk, &lv) }, &proof) == root };
    assert!(got == want, "C14 exclusion verifier: refuses a leaf with the queried key, otherwise accepts exactly when the recomputation reaches the root");
    core::mem::forget(p); core::mem::forget(proof);
}

//@ props=C14 tier=thorough class=bounded(concrete) timeout=2400 -- proof length guard: an inclusion proof with exactly 256 side nodes (maximal depth) is still verified by recomputation, one with 257 is refused (concrete key and side hashes; hashes abstracted)
#[kani::proof]
#[kani::unwind(260)]
#[kani::stub(crate::sparse::hash::calculate_leaf_hash, leaf_model)]
#[kani::stub(crate::sparse::hash::calculate_node_hash, node_model)]
#[kani::stub(crate::common::sum, sum_stub)]
fn c14_proof_length_guard() {
    let key = [0x5au8; 32];
    let mut side = [0u8; 32]; side[0] = 9;
    let mut proof: Vec<Bytes32> = Vec::with_capacity(257);
    let mut i = 0; while i < 256 { proof.push(side); i += 1; }
    let start = leaf_model(&key, &sum_stub(&[0u8; 0]));
    let root = spec_fold(&key, start, &proof);
    let p = InclusionProof { proof_set: proof.clone() };
    assert!(p.verify(&root, &unsafe { MerkleTreeKey::convert(key) }, &[]), "C14 a proof of the maximal depth 256 is verified by recomputation, not refused by the length guard");
    let mut longer = proof.clone();
    longer.push(side);
    let root2 = spec_fold(&key, start, &longer[1..]);
    let q = InclusionProof { proof_set: longer };
    assert!(!q.verify(&root2, &unsafe { MerkleTreeKey::convert(key) }, &[]), "C14 a proof set longer than 256 is refused");
    core::mem::forget(p); core::mem::forget(q); core::mem::forget(proof);
}
