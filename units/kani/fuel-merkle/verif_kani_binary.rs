//! Kani harnesses for fuel-merkle binary tree bookkeeping and position arithmetic.
//! Injected as a child of `binary::merkle_tree` (needs the private fields of `MerkleTree`,
//! `root_position`, `peak_positions`).
#![allow(clippy::all, unused_imports, dead_code)]
use super::*;
use crate::common::{Position, Bytes32};
use crate::common::node::ParentNode;

fn peak(h: u32) -> u64 {
    // 2^h - 1 for h in 0..=64 (spec arithmetic in u128)
    ((1u128 << h) - 1) as u64
}

//@ props=C09 tier=quick class=proved-fin -- O-C09.1 on peak positions 2^h-1 (all h in 0..=63): height()==h, parent()==Ok(2^(h+1)-1) for h<=62, Err at h==63 (the contract ASSUMED by the Verus unit c09_calc)
#[kani::proof]
fn c09_position_peaks() {
    let h: u32 = kani::any();
    kani::assume(h <= 63);
    let p = Position::from_in_order_index(peak(h));
    assert!(p.height() == h, "O-C09.1 height of peak position 2^h-1 is h");
    match p.parent() {
        Ok(q) => {
            assert!(h <= 62, "O-C09.1 parent of the peak at height 63 cannot exist");
            assert!(q.in_order_index() == peak(h + 1), "O-C09.1 parent of peak(h) is peak(h+1)");
        }
        Err(_) => assert!(h == 63, "O-C09.1 parent() fails only at height 63"),
    }
    assert!(Position::from_leaf_index(0).map(|p| p.in_order_index()) == Some(0));
}

//@ props=C09 tier=quick class=proved-fin -- O-C09.1 all u64 in-order indices: height = number of trailing one bits; parent replaces the low h+2 bits by 0 1^(h+1); Err exactly when h >= 63; from_leaf_index(i) = 2i or None on overflow
#[kani::proof]
fn c09_position_all() {
    let idx: u64 = kani::any();
    let h: u32 = kani::any();
    kani::assume(h <= 64);
    // spec relation for "h = number of trailing ones of idx"
    let low: u64 = peak(h);
    kani::assume(idx & low == low);
    kani::assume(h == 64 || (idx >> h) & 1 == 0);
    let p = Position::from_in_order_index(idx);
    assert!(p.in_order_index() == idx);
    assert!(p.height() == h, "O-C09.1 height() is the number of trailing one bits");
    assert!(p.is_leaf() == (h == 0), "O-C09.1 leaves are the even in-order indices");
    match p.parent() {
        Ok(q) => {
            assert!(h <= 62, "O-C09.1 parent() must fail when the parent height exceeds 63");
            let keep: u128 = !((1u128 << (h + 2)) - 1);
            let want = (((idx as u128) & keep) | ((1u128 << (h + 1)) - 1)) as u64;
            assert!(q.in_order_index() == want, "O-C09.1 parent index = low h+2 bits replaced by 0 followed by h+1 ones");
            assert!(q.height() == h + 1, "O-C09.1 parent has height + 1");
        }
        Err(_) => assert!(h >= 63, "O-C09.1 parent() fails only when it cannot exist in u64"),
    }
    let i: u64 = kani::any();
    match Position::from_leaf_index(i) {
        Some(l) => { assert!(i < (1u64 << 63)); assert!(l.in_order_index() == i * 2, "O-C09.1 leaf i sits at in-order index 2i"); }
        None => assert!(i >= (1u64 << 63), "O-C09.1 from_leaf_index fails only on overflow"),
    }
}

//@ props=C09,C11 tier=quick class=proved-fin -- O-C11.3 root_position(n) = (least power of two >= n+1) - 1 for every n < 2^63 (the range reachable through push/load)
#[kani::proof]
fn c11_root_position() {
    let n: u64 = kani::any();
    kani::assume(n < (1u64 << 63));
    let r = root_position(n).expect("root position exists below 2^63 leaves").in_order_index();
    let m = (r as u128) + 1;
    assert!(m & (m - 1) == 0, "O-C11.3 root index + 1 is a power of two");
    assert!(m >= (n as u128) + 1 && m / 2 < (n as u128) + 1, "O-C11.3 it is the least power of two >= n+1");
}

/// spec: MMR peaks of n leaves, left to right: one per set bit of n (high to low); the peak over
/// leaves [s, s + 2^k) is the in-order position 2s + 2^k - 1.
fn spec_peaks(n: u64, out: &mut [u64; 64]) -> usize {
    let mut cnt = 0;
    let mut s: u64 = 0;
    let mut k: i32 = 63;
    while k >= 0 {
        if (n >> k) & 1 == 1 {
            out[cnt] = 2 * s + (1u64 << k) - 1;
            cnt += 1;
            s += 1u64 << k;
        }
        k -= 1;
    }
    cnt
}

fn peak_positions_range(lo: u64, hi: u64) {
    let mut n: u64 = lo;
    while n <= hi {
        let peaks = peak_positions(n).expect("small trees have peaks");
        let mut want = [0u64; 64];
        let cnt = spec_peaks(n, &mut want);
        assert!(peaks.len() == cnt, "O-C11.3 number of peaks = popcount(n)");
        let mut j = 0;
        while j < cnt {
            assert!(peaks[j].in_order_index() == want[j], "O-C11.3 peak position");
            j += 1;
        }
        n += 1;
    }
}

//@ props=C11 tier=quick class=bounded(n<=12) -- O-C11.3 peak_positions(n) are exactly the MMR peaks (set bits of n, in-order roots of the aligned blocks), n = 0..=12 concretely
#[kani::proof]
#[kani::unwind(70)]
fn c11_peak_positions_0_12() { peak_positions_range(0, 12); }

//@ props=C11 tier=thorough class=bounded(n<=40) -- O-C11.3 peak positions, n = 13..=40
#[kani::proof]
#[kani::unwind(70)]
fn c11_peak_positions_13_40() { peak_positions_range(13, 40); }

//@ props=C11 tier=quick class=proved-fin -- O-C11.3 peak_positions(n) is None (no panic) for every n >= 2^63
#[kani::proof]
#[kani::unwind(1)]
fn c11_peak_positions_too_large() {
    let n: u64 = kani::any();
    kani::assume(n >= (1u64 << 63));
    assert!(peak_positions(n).is_none(), "O-C11.3 too-large leaf counts are refused without panicking");
}

// ---- storage stub for tree-level bookkeeping harnesses -----------------------------------------
pub struct NoStorage;
#[derive(Debug)]
pub struct NoErr;
pub struct T;
impl fuel_storage::Mappable for T {
    type Key = Self::OwnedKey;
    type OwnedKey = u64;
    type OwnedValue = crate::binary::Primitive;
    type Value = Self::OwnedValue;
}
impl fuel_storage::StorageInspect<T> for NoStorage {
    type Error = NoErr;
    fn get(&self, _key: &u64) -> Result<Option<alloc::borrow::Cow<'_, crate::binary::Primitive>>, NoErr> {
        // any access to storage is a violation of "refused before touching storage"
        panic!("storage must not be read")
    }
    fn contains_key(&self, _key: &u64) -> Result<bool, NoErr> {
        panic!("storage must not be read")
    }
}

//@ props=C11,C10 tier=quick class=proved-fin -- O-C11.2 prove(i) is refused with InvalidProofIndex(i) for every i >= leaves_count, for every leaf count and any peak stack, before storage is touched
#[kani::proof]
#[kani::unwind(1)]
fn c11_prove_guard() {
    let leaves_count: u64 = kani::any();
    let i: u64 = kani::any();
    kani::assume(i >= leaves_count);
    let tree: MerkleTree<T, NoStorage> = MerkleTree {
        storage: NoStorage,
        nodes: MerkleRootCalculator::new(),
        leaves_count,
        phantom_table: Default::default(),
    };
    assert!(tree.leaves_count() == leaves_count);
    match tree.prove(i) {
        Err(MerkleTreeError::InvalidProofIndex(j)) => assert!(j == i, "O-C11.2 error carries the index"),
        _ => assert!(false, "O-C11.2 proofs are refused for indices at or beyond the current leaf count"),
    }
}

//@ props=C11 tier=quick class=proved-fin -- O-C11.1 (Kani twin of the Verus contract, yields counterexamples): after reset() the tree has leaf count 0, an empty peak stack, and refuses every proof index
#[kani::proof]
#[kani::unwind(1)]
fn c11_reset_state() {
    let leaves_count: u64 = kani::any();
    let mut tree: MerkleTree<T, NoStorage> = MerkleTree {
        storage: NoStorage,
        nodes: MerkleRootCalculator::new(),
        leaves_count,
        phantom_table: Default::default(),
    };
    tree.reset();
    assert!(tree.leaves_count() == 0, "O-C11.1 reset() sets the leaf count to that of a fresh tree");
    assert!(tree.nodes.stack().is_empty(), "O-C11.1 reset() empties the peak stack");
    let i: u64 = kani::any();
    assert!(matches!(tree.prove(i), Err(MerkleTreeError::InvalidProofIndex(_))), "O-C11.1 a reset tree refuses every proof index like a fresh tree");
}

// ---- O-C10.4: side positions emitted by prove's path walk == RFC 6962 audit path subtrees ------
/// position of the (sub)tree root over leaves [a, b): 2a + next_pow2(b-a) - 1
fn spec_pos(a: u64, b: u64) -> u64 {
    2 * a + (b - a).next_power_of_two() - 1
}
/// RFC 6962 PATH(m, D[a..b)) as sibling-subtree positions, leaf to root
fn spec_audit_positions(m: u64, a: u64, b: u64, out: &mut [u64; 8], cnt: &mut usize) {
    let n = b - a;
    if n <= 1 { return; }
    let mut k: u64 = 1;
    while k * 2 < n { k *= 2; }
    if m < k {
        spec_audit_positions(m, a, a + k, out, cnt);
        out[*cnt] = spec_pos(a + k, b);
    } else {
        spec_audit_positions(m - k, a + k, b, out, cnt);
        out[*cnt] = spec_pos(a, a + k);
    }
    *cnt += 1;
}

fn prove_side_positions_range(lo: u64, hi: u64) {
    let mut n: u64 = lo;
    while n <= hi {
        let mut i: u64 = 0;
        while i < n {
            let root = root_position(n).unwrap();
            let leaf = Position::from_leaf_index(i).unwrap();
            let (_, mut side): (Vec<_>, Vec<_>) = root.path(&leaf, n).iter().unzip();
            side.reverse();
            side.pop();
            let mut want = [0u64; 8];
            let mut cnt = 0usize;
            spec_audit_positions(i, 0, n, &mut want, &mut cnt);
            assert!(side.len() == cnt, "O-C10.4 proof length = audit path length");
            let mut j = 0;
            while j < cnt {
                assert!(side[j].in_order_index() == want[j], "O-C10.4 side position = audit path sibling");
                j += 1;
            }
            i += 1;
        }
        n += 1;
    }
}

//@ props=C10 tier=quick class=bounded(n<=6) -- O-C10.4 for every n <= 6 and i < n the side positions walked by prove (leaf to root, root removed) are the RFC 6962 audit-path sibling subtrees
#[kani::proof]
#[kani::unwind(70)]
fn c10_prove_side_positions_1_6() { prove_side_positions_range(1, 6); }

//@ props=C10 tier=thorough class=bounded(n<=12) -- O-C10.4 side positions, n = 7..=9
#[kani::proof]
#[kani::unwind(70)]
fn c10_prove_side_positions_7_9() { prove_side_positions_range(7, 9); }

//@ props=C10 tier=thorough class=bounded(n<=12) -- O-C10.4 side positions, n = 10..=12
#[kani::proof]
#[kani::unwind(70)]
fn c10_prove_side_positions_10_12() { prove_side_positions_range(10, 12); }

// NOTE (seeds C10-2 / C11-1): a harness `c10_prove_prefers_fresh_nodes` (7-leaf tree whose storage holds a
// stale node at the position of the tree's own join node) was written to pin the lookup order of
// prove() (scratch before storage).  CBMC does not finish it in 25 minutes because root_node()
// inserts into a hashbrown map, so it is not part of any check; prove()'s node fetching stays
// outside the contracts (listed under not_covered).
