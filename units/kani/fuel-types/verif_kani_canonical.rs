//! Kani harnesses for the canonical codec primitives (child of `canonical`).
#![allow(clippy::all, unused_imports, dead_code)]
use super::*;

/// The law of C01 for one value: size is word aligned and = static + dynamic, encode writes exactly
/// `size` bytes, decode of those bytes succeeds, consumes them all; returns (decoded, size).
pub fn law<T: Serialize + Deserialize, const N: usize>(x: &T, buf: &mut [u8; N]) -> (T, usize) {
    let n = x.size();
    assert!(n % ALIGN == 0, "C01 encoded size is word aligned");
    assert!(n == x.size_static() + x.size_dynamic(), "C01 size = static + dynamic");
    assert!(n <= N);
    // a buffer of exactly size() bytes must suffice
    let mut out: &mut [u8] = &mut buf[..n];
    x.encode(&mut out).expect("C01 encode into a buffer of exactly size() bytes succeeds");
    assert!(out.is_empty(), "C01 encode writes exactly size() bytes");
    let mut inp: &[u8] = &buf[..n];
    let y = T::decode(&mut inp).expect("C01 decode of an encoding succeeds");
    assert!(inp.is_empty(), "C01 decode consumes exactly the encoded bytes");
    (y, n)
}

macro_rules! prim_harness {
    ($name:ident, $t:ty, $bytes:expr, $slot:expr) => {
        #[kani::proof]
        #[kani::unwind(40)]
        fn $name() {
            let x: $t = kani::any();
            let mut buf = [0xAAu8; 24];
            let (y, n) = law(&x, &mut buf);
            assert!(y == x, "C01 round trip");
            assert!(n == $slot, "C01 primitive slot size");
            let be = x.to_be_bytes();
            let mut i = 0;
            while i < $slot {
                if i < $slot - $bytes { assert!(buf[i] == 0, "C01 left padding is zero"); }
                else { assert!(buf[i] == be[i - ($slot - $bytes)], "C01 big-endian payload"); }
                i += 1;
            }
            // C02: arbitrary bytes
            let raw: [u8; 24] = kani::any();
            let len: usize = kani::any();
            kani::assume(len <= 24);
            let mut inp: &[u8] = &raw[..len];
            match <$t>::decode(&mut inp) {
                Ok(v) => {
                    assert!(len >= $slot && inp.len() == len - $slot, "C02 consumed = encoded size");
                    let mut b2 = [0u8; 24];
                    let (w, _) = law(&v, &mut b2);
                    assert!(w == v, "C02 fixed point");
                }
                Err(_) => assert!(len < $slot, "C02 primitives only fail on short input"),
            }
        }
    };
}
//@ props=C01,C02 tier=quick class=proved-fin -- u8: round trip for every value (size, big-endian, left zero padding), decode of arbitrary bytes is a fixed point and fails only on short input
prim_harness!(c01_u8, u8, 1, 8);
//@ props=C01,C02 tier=quick class=proved-fin -- u16: round trip for every value (size, big-endian, left zero padding), decode of arbitrary bytes is a fixed point and fails only on short input
prim_harness!(c01_u16, u16, 2, 8);
//@ props=C01,C02 tier=quick class=proved-fin -- u32: round trip for every value (size, big-endian, left zero padding), decode of arbitrary bytes is a fixed point and fails only on short input
prim_harness!(c01_u32, u32, 4, 8);
//@ props=C01,C02 tier=quick class=proved-fin -- u64: round trip for every value (size, big-endian, left zero padding), decode of arbitrary bytes is a fixed point and fails only on short input
prim_harness!(c01_u64, u64, 8, 8);
//@ props=C01,C02 tier=quick class=proved-fin -- u128: round trip for every value (size, big-endian, left zero padding), decode of arbitrary bytes is a fixed point and fails only on short input
prim_harness!(c01_u128, u128, 16, 16);

//@ props=C01 tier=quick class=proved-fin -- alignment helpers for every usize: least multiple of 8 >= len (saturating), padding < 8
#[kani::proof]
fn c01_alignment() {
    let len: usize = kani::any();
    let p = alignment_bytes(len);
    assert!(p < 8 && (len % 8 + p) % 8 == 0, "O-C01.1 padding completes the word");
    let a = aligned_size(len);
    if len <= usize::MAX - 7 { assert!(a % 8 == 0 && a >= len && a - len < 8 && a == len + p, "O-C01.1 least multiple of 8 >= len"); }
    else { assert!(a >= len, "O-C01.1 saturates near usize::MAX"); }
}

//@ props=C01,C02 tier=quick class=bounded(len<=9) -- Vec<u8> of every length 0..=9 (all eight classes mod 8): 8-byte length prefix, payload, zero padding; round trip; arbitrary bytes never panic and decode to a fixed point
#[kani::proof]
#[kani::unwind(40)]
fn c01_vec_u8() {
    let src: [u8; 9] = kani::any();
    let n: usize = kani::any();
    kani::assume(n <= 9);
    let x: Vec<u8> = src[..n].to_vec();
    let mut buf = [0xAAu8; 32];
    let (y, sz) = law(&x, &mut buf);
    assert!(sz == 8 + (n + 7) / 8 * 8, "C01 vec size = prefix + padded payload");
    assert!(y.len() == n);
    let mut i = 0;
    while i < n { assert!(y[i] == src[i], "C01 vec round trip"); i += 1; }
    let mut j = 8 + n;
    while j < sz { assert!(buf[j] == 0, "C01 padding bytes are zero"); j += 1; }
    kani::cover!(n % 8 == 1); kani::cover!(n == 8); kani::cover!(n == 0);
}

//@ props=C02 tier=quick class=bounded(L=24) -- Vec<u8>::decode on arbitrary bytes (L <= 24): never panics; Ok => consumed == size and re-encoding gives the consumed bytes up to padding
#[kani::proof]
#[kani::unwind(40)]
fn c02_vec_u8_arbitrary() {
    let raw: [u8; 24] = kani::any();
    let len: usize = kani::any();
    kani::assume(len <= 24);
    // length prefixes in [32, VEC_DECODE_LIMIT] allocate that many bytes before failing on the short buffer:
    // not modelled (stated gap); every other prefix value, including huge ones, is covered
    let prefix = u64::from_be_bytes([raw[0], raw[1], raw[2], raw[3], raw[4], raw[5], raw[6], raw[7]]);
    kani::assume(prefix < 32 || prefix > VEC_DECODE_LIMIT as u64);
    let mut inp: &[u8] = &raw[..len];
    if let Ok(v) = Vec::<u8>::decode(&mut inp) {
        let consumed = len - inp.len();
        assert!(v.size() == consumed, "C02 consumed = encoded size");
        assert!(v.len() as u64 == prefix);
        let mut b2 = [0u8; 32];
        let (w, _) = law(&v, &mut b2);
        assert!(w.len() == v.len(), "C02 fixed point");
    }
}

//@ props=C01,C02 tier=quick class=proved-fin -- [u8; 32] round trip and arbitrary decode
#[kani::proof]
#[kani::unwind(40)]
fn c01_bytes32() {
    let x: [u8; 32] = kani::any();
    let mut buf = [0u8; 40];
    let (y, n) = law(&x, &mut buf);
    assert!(n == 32 && y == x, "C01 [u8;32] round trip");
}
