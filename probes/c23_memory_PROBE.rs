use vstd::prelude::*;
verus! {

pub const MEM_SIZE: usize = 64 * 1024 * 1024;
pub const VM_MAX_RAM: u64 = 64 * 1024 * 1024;
pub type Word = u64;

pub enum PanicReason { MemoryOverflow, MemoryGrowthOverlap, UninitalizedMemoryAccess, MemoryOwnership, MemoryWriteOverlap }

pub struct MemoryRange(pub core::ops::Range<usize>);

pub struct MemoryInstance {
    stack: Vec<u8>,
    heap: Vec<u8>,
    hp: usize,
}

pub trait ToAddr {
    spec fn addr_spec(self) -> Option<usize>;
    fn to_addr(self) -> (r: Result<usize, PanicReason>)
        ensures
            match self.addr_spec() { Some(a) => r == Ok::<usize, PanicReason>(a) && a <= MEM_SIZE, None => r is Err && r->Err_0 is MemoryOverflow };
}

impl ToAddr for usize {
    open spec fn addr_spec(self) -> Option<usize> { if self > MEM_SIZE { None } else { Some(self) } }
    fn to_addr(self) -> Result<usize, PanicReason> {
        if self > MEM_SIZE {
            return Err(PanicReason::MemoryOverflow)
        }
        Ok(self)
    }
}

impl ToAddr for Word {
    open spec fn addr_spec(self) -> Option<usize> { if self > MEM_SIZE as u64 { None } else { Some(self as usize) } }
    fn to_addr(self) -> Result<usize, PanicReason> {
        let value = usize::try_from(self).map_err(|_e| PanicReason::MemoryOverflow)?;
        value.to_addr()
    }
}

impl MemoryRange {
    spec fn s(&self) -> int { self.0.start as int }
    spec fn e(&self) -> int { self.0.end as int }
    fn start(&self) -> (r: usize) ensures r == self.0.start { self.0.start }
    fn end(&self) -> (r: usize) ensures r == self.0.end { self.0.end }
    fn usizes(&self) -> (r: core::ops::Range<usize>) ensures r == self.0 { self.0.clone() }
}

impl MemoryInstance {
    spec fn wf(&self) -> bool {
        &&& self.stack@.len() <= self.hp
        &&& self.hp <= MEM_SIZE
        &&& self.heap@.len() <= MEM_SIZE
        &&& MEM_SIZE - self.heap@.len() <= self.hp
    }
    spec fn hoff(&self) -> int { MEM_SIZE - self.heap@.len() }
    spec fn accessible(&self, s: int, e: int) -> bool {
        0 <= s <= e <= MEM_SIZE && (e <= self.stack@.len() || s >= self.hp)
    }
    /// byte at absolute address (meaningful when accessible)
    spec fn byte(&self, a: int) -> u8 {
        if a < self.stack@.len() { self.stack@[a] } else { self.heap@[a - self.hoff()] }
    }

    fn new() -> (r: Self)
        ensures r.wf(), r.stack@.len() == 0, r.hp == MEM_SIZE
    {
        Self {
            stack: Vec::new(),
            heap: Vec::new(),
            hp: MEM_SIZE,
        }
    }

    fn reset(&mut self)
        requires old(self).wf()
        ensures final(self).wf(), final(self).stack@.len() == 0, final(self).hp == MEM_SIZE
    {
        self.stack.truncate(0);
        self.hp = MEM_SIZE;
    }

    fn heap_offset(&self) -> (r: usize)
        requires self.wf()
        ensures r == self.hoff()
    {
        MEM_SIZE.saturating_sub(self.heap.len())
    }

    fn grow_stack(&mut self, new_sp: Word) -> (r: Result<(), PanicReason>)
        requires old(self).wf()
        ensures
            final(self).wf(),
            final(self).hp == old(self).hp,
            final(self).heap@ == old(self).heap@,
            new_sp > VM_MAX_RAM ==> r is Err && r->Err_0 is MemoryOverflow && final(self).stack@ == old(self).stack@,
            new_sp <= VM_MAX_RAM && new_sp > old(self).stack@.len() && new_sp > old(self).hp ==> r is Err && r->Err_0 is MemoryGrowthOverlap && final(self).stack@ == old(self).stack@,
            new_sp <= VM_MAX_RAM && !(new_sp > old(self).stack@.len() && new_sp > old(self).hp) ==> r is Ok
                && final(self).stack@.len() == (if new_sp as int > old(self).stack@.len() { new_sp as int } else { old(self).stack@.len() as int })
                && (forall|i: int| 0 <= i < old(self).stack@.len() ==> final(self).stack@[i] == old(self).stack@[i])
                && (forall|i: int| old(self).stack@.len() <= i < final(self).stack@.len() ==> final(self).stack@[i] == 0u8),
    {
        if new_sp > VM_MAX_RAM {
            return Err(PanicReason::MemoryOverflow);
        }
        #[allow(clippy::cast_possible_truncation)] // Safety: VM_MAX_RAM is usize
        let new_sp = new_sp as usize;

        if new_sp > self.stack.len() {
            if new_sp > self.hp {
                return Err(PanicReason::MemoryGrowthOverlap)
            }

            self.stack.resize(new_sp, 0);
        }
        Ok(())
    }

    fn verify<A: ToAddr, B: ToAddr>(
        &self,
        addr: A,
        count: B,
    ) -> (r: Result<MemoryRange, PanicReason>)
        requires self.wf()
        ensures
            match (addr.addr_spec(), count.addr_spec()) {
                (Some(s), Some(l)) => {
                    if s + l > MEM_SIZE { r is Err && r->Err_0 is MemoryOverflow }
                    else if self.accessible(s as int, s + l) { r is Ok && r->Ok_0.s() == s && r->Ok_0.e() == s + l }
                    else { r is Err && r->Err_0 is UninitalizedMemoryAccess }
                },
                _ => r is Err && r->Err_0 is MemoryOverflow,
            }
    {
        let start = addr.to_addr()?;
        let len = count.to_addr()?;
        let end = start.saturating_add(len);
        if end > MEM_SIZE {
            return Err(PanicReason::MemoryOverflow)
        }

        if end <= self.stack.len() || start >= self.hp {
            Ok(MemoryRange(start..end))
        } else {
            Err(PanicReason::UninitalizedMemoryAccess)
        }
    }

    fn read<A: ToAddr, C: ToAddr>(
        &self,
        addr: A,
        count: C,
    ) -> (r: Result<&[u8], PanicReason>)
        requires self.wf()
        ensures
            match (addr.addr_spec(), count.addr_spec()) {
                (Some(s), Some(l)) if s + l <= MEM_SIZE && self.accessible(s as int, s + l) =>
                    r is Ok && r->Ok_0@.len() == l && forall|i: int| 0 <= i < l ==> r->Ok_0@[i] == self.byte(s + i),
                _ => r is Err,
            }
    {
        let range = self.verify(addr, count)?;

        if range.end() <= self.stack.len() {
            Ok(&self.stack[range.usizes()])
        } else if range.start() >= self.heap_offset() {
            let start = range.start() - self.heap_offset();
            let end = range.end() - self.heap_offset();
            Ok(&self.heap[start..end])
        } else {
            unreachable!("Range was verified to be valid")
        }
    }
}

} // verus!
fn main() {}
