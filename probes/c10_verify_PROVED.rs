use vstd::prelude::*;
verus! {

pub type Bytes32 = [u8; 32];
pub type ProofSet = Vec<Bytes32>;

pub uninterp spec fn spec_leaf_sum(data: Seq<u8>) -> Seq<u8>;
pub uninterp spec fn spec_node_sum(l: Seq<u8>, r: Seq<u8>) -> Seq<u8>;

#[verifier::external_body]
pub fn leaf_sum(data: &[u8]) -> (r: Bytes32)
    ensures r@ == spec_leaf_sum(data@)
{ unimplemented!() }

#[verifier::external_body]
pub fn node_sum(lhs_data: &Bytes32, rhs_data: &Bytes32) -> (r: Bytes32)
    ensures r@ == spec_node_sum(lhs_data@, rhs_data@)
{ unimplemented!() }

/// declared rewrite target: `a == b` on `Bytes32` (std array equality, assumed element-wise)
#[verifier::external_body]
pub fn bytes32_eq(a: &Bytes32, b: &Bytes32) -> (r: bool)
    ensures r == (a@ == b@)
{ a == b }

pub open spec fn pow2u(k: nat) -> nat decreases k { if k == 0 { 1 } else { 2 * pow2u((k-1) as nat) } }

pub assume_specification [u64::is_power_of_two] (x: u64) -> (r: bool)
    ensures r == (exists|k: nat| k < 64 && x as nat == pow2u(k));
pub assume_specification [u64::ilog2] (x: u64) -> (r: u32)
    requires x > 0
    ensures r < 64, pow2u(r as nat) <= x as nat, (x as nat) < pow2u((r + 1) as nat);


// ---------------------------------------------------------------------------------------------
// SPEC (RFC 6962 audit path, top-down) and MODEL (fuel's three-phase bottom-up algorithm)
// ---------------------------------------------------------------------------------------------
pub open spec fn H1(l: Seq<u8>, r: Seq<u8>) -> Seq<u8> { spec_node_sum(l, r) }

pub open spec fn pview(p: Seq<Bytes32>) -> Seq<Seq<u8>> { p.map_values(|b: Bytes32| b@) }

/// ceil(log2 n)
pub open spec fn clog(n: nat) -> nat decreases n {
    if n <= 1 { 0 } else { 1 + clog(((n + 1) / 2) as nat) }
}

/// largest power of two strictly below n (n >= 2)
pub open spec fn split(n: nat) -> nat {
    pow2u((clog(n) - 1) as nat)
}

proof fn lemma_pow2u_pos(k: nat)
    ensures pow2u(k) >= 1
    decreases k
{ if k > 0 { lemma_pow2u_pos((k - 1) as nat); } }

proof fn lemma_pow2u_mono(a: nat, b: nat)
    requires a <= b
    ensures pow2u(a) <= pow2u(b)
    decreases b
{
    if a < b { lemma_pow2u_mono(a, (b - 1) as nat); lemma_pow2u_pos((b - 1) as nat); }
}

proof fn lemma_pow2u_strict(a: nat, b: nat)
    requires a < b
    ensures pow2u(a) < pow2u(b)
{
    lemma_pow2u_mono((a + 1) as nat, b);
    lemma_pow2u_pos(a);
}

proof fn lemma_clog_bounds(n: nat)
    requires n >= 2
    ensures clog(n) >= 1, pow2u((clog(n) - 1) as nat) < n, n <= pow2u(clog(n))
    decreases n
{
    let m = ((n + 1) / 2) as nat;
    if m >= 2 {
        lemma_clog_bounds(m);
        let c = clog(m);
        assert(pow2u(c) == 2 * pow2u((c - 1) as nat));
        assert(clog(n) == c + 1);
        assert(pow2u((c + 1) as nat) == 2 * pow2u(c));
    } else {
        assert(n == 2);
        assert(clog(1) == 0);
        assert(clog(2) == 1 + clog(1));
        assert(pow2u(1) == 2 * pow2u(0));
    }
}

proof fn lemma_clog_unique(n: nat, c: nat)
    requires n >= 2, c >= 1, pow2u((c - 1) as nat) < n, n <= pow2u(c)
    ensures clog(n) == c
{
    lemma_clog_bounds(n);
    let d = clog(n);
    if d < c {
        lemma_pow2u_mono(d, (c - 1) as nat);
    } else if c < d {
        lemma_pow2u_mono(c, (d - 1) as nat);
    }
}

proof fn lemma_split_bounds(n: nat)
    requires n >= 2
    ensures 1 <= split(n) < n, n <= 2 * split(n)
{
    lemma_clog_bounds(n);
    lemma_pow2u_pos((clog(n) - 1) as nat);
    assert(pow2u(clog(n)) == 2 * pow2u((clog(n) - 1) as nat));
}

pub open spec fn audit_len(m: nat, n: nat) -> nat decreases n {
    let k = split(n);
    if n <= 1 || k == 0 || k >= n { 0 }
    else if m < k { 1 + audit_len(m, k) }
    else { 1 + audit_len((m - k) as nat, (n - k) as nat) }
}

pub open spec fn audit_root(m: nat, n: nat, leaf: Seq<u8>, path: Seq<Seq<u8>>) -> Option<Seq<u8>>
    decreases n
{
    if n == 0 || m >= n { None }
    else if n == 1 { if path.len() == 0 { Some(leaf) } else { None } }
    else if path.len() == 0 || split(n) == 0 || split(n) >= n { None }
    else {
        let k = split(n);
        let rest = path.drop_last();
        let sib = path.last();
        if m < k {
            match audit_root(m, k, leaf, rest) { Some(l) => Some(H1(l, sib)), None => None }
        } else {
            match audit_root((m - k) as nat, (n - k) as nat, leaf, rest) { Some(r) => Some(H1(sib, r)), None => None }
        }
    }
}

/// phase 1: returns (parent, acc, stable_end, ok)
pub open spec fn p1(i: nat, n: nat, j: nat, acc: Seq<u8>, se: nat, path: Seq<Seq<u8>>) -> (nat, Seq<u8>, nat, bool)
    decreases 64 - j
{
    let size = pow2u(j + 1);
    let start = (i / size) * size;
    let end = (start + size - 1) as nat;
    if j >= 63 || end >= n { (j, acc, se, true) }
    else if path.len() < j + 1 { (j, acc, se, false) }
    else {
        let acc2 = if i - start < pow2u(j) { H1(acc, path[j as int]) } else { H1(path[j as int], acc) };
        p1(i, n, j + 1, acc2, end, path)
    }
}

pub open spec fn p3(j: nat, acc: Seq<u8>, path: Seq<Seq<u8>>) -> Seq<u8>
    decreases path.len() - j
{
    if j >= path.len() { acc } else { p3(j + 1, H1(path[j as int], acc), path) }
}

pub open spec fn finish(r: (nat, Seq<u8>, nat, bool), n: nat, path: Seq<Seq<u8>>) -> Option<Seq<u8>> {
    let (j, acc, se, ok) = r;
    if !ok { None }
    else if se != n - 1 {
        if path.len() <= j { None } else { Some(p3(j + 1, H1(acc, path[j as int]), path)) }
    } else { Some(p3(j, acc, path)) }
}

pub open spec fn model(i: nat, n: nat, leaf: Seq<u8>, path: Seq<Seq<u8>>) -> Option<Seq<u8>> {
    finish(p1(i, n, 0, leaf, i, path), n, path)
}

/// spec mirror of `path_length_from_key`
pub open spec fn plfk(key: nat, n: nat) -> Option<nat> decreases n {
    if n < 2 { None }
    else {
        let k = split(n);
        if k == 0 || k >= n { None }
        else if key < k { Some(clog(n)) }
        else if k == 1 || n - k <= 1 { Some(1nat) }
        else { match plfk((key - k) as nat, (n - k) as nat) { Some(x) => Some(x + 1), None => None } }
    }
}

proof fn lemma_clog_le(n: nat, b: nat)
    requires n >= 1, n <= pow2u(b)
    ensures clog(n) <= b
{
    if n >= 2 {
        lemma_clog_bounds(n);
        if clog(n) > b { lemma_pow2u_mono(b, (clog(n) - 1) as nat); }
    }
}

proof fn lemma_plfk_bound(key: nat, n: nat)
    requires n >= 2
    ensures plfk(key, n) is Some, 1 <= plfk(key, n)->Some_0 <= clog(n)
    decreases n
{
    lemma_split_bounds(n);
    lemma_clog_bounds(n);
    let k = split(n);
    if key < k {
    } else if k == 1 || n - k <= 1 {
    } else {
        lemma_plfk_bound((key - k) as nat, (n - k) as nat);
        // clog(n-k) <= clog(n) - 1 because n - k <= k = pow2u(clog(n)-1)
        lemma_clog_le((n - k) as nat, (clog(n) - 1) as nat);
    }
}

proof fn lemma_shl_pow2(h: u64)
    requires h <= 63
    ensures (1u64 << h) as nat == pow2u(h as nat)
    decreases h
{
    if h == 0 {
        assert((1u64 << 0u64) == 1u64) by (bit_vector);
    } else {
        let g = (h - 1) as u64;
        lemma_shl_pow2(g);
        assert(g < 63 ==> (1u64 << ((g + 1) as u64)) == 2 * (1u64 << g)) by (bit_vector);
    }
}

fn path_length_from_key(key: u64, num_leaves: u64) -> (r: Option<usize>)
    requires num_leaves != 1
    ensures
        num_leaves == 0 ==> r is None,
        num_leaves >= 2 ==> r is Some && plfk(key as nat, num_leaves as nat) == Some(r->Some_0 as nat) && r->Some_0 <= 64,
    decreases num_leaves
{
    if num_leaves == 0 {
        return None;
    }

    #[allow(clippy::arithmetic_side_effects)] // ilog2(..) < 64
    let path_length = if num_leaves.is_power_of_two() {
        num_leaves.ilog2()
    } else {
        num_leaves.ilog2() + 1
    };

    #[allow(clippy::arithmetic_side_effects)] // ilog2(..) > 0
    proof {
        let n = num_leaves as nat;
        assert(n >= 2);
        assert(pow2u(0) == 1);
        assert(pow2u(1) == 2);
        if (exists|k: nat| k < 64 && n == pow2u(k)) {
            let k = choose|k: nat| k < 64 && n == pow2u(k);
            let r = path_length as nat;
            if k < r { lemma_pow2u_strict(k, r); } else if k > r { lemma_pow2u_mono((r + 1) as nat, k); }
            assert(k == r);
            if r == 0 { assert(false); }
            lemma_pow2u_strict((r - 1) as nat, r);
            lemma_clog_unique(n, r);
        } else {
            let r = (path_length - 1) as nat;
            assert(r < 64);
            assert(n != pow2u(r));
            lemma_clog_unique(n, (r + 1) as nat);
        }
        assert(path_length as nat == clog(n));
        lemma_clog_bounds(n);
        let p = path_length;
        assert(p >= 1 && p <= 64);
    }
    let num_leaves_left_subtree = 1 << (path_length - 1);
    proof {
        let x = (path_length - 1) as u32;
        assert(x < 64 ==> (1u64 << x) >= 1) by (bit_vector);
        assert(x < 64 ==> (1u64 << x) == (1u64 << (x as u64))) by (bit_vector);
        lemma_shl_pow2(x as u64);
        assert(num_leaves_left_subtree as nat == split(num_leaves as nat));
        lemma_split_bounds(num_leaves as nat);
        lemma_plfk_bound(key as nat, num_leaves as nat);
    }

    let subtree_leaves = num_leaves.saturating_sub(num_leaves_left_subtree);

    let Some(subtree_key) = key.checked_sub(num_leaves_left_subtree) else {
        // If leaf is in left subtree, path length is full height of left subtree
        return path_length.try_into().ok();
    };

    // Otherwise, if left or right subtree has only one leaf, path has one additional step
    if num_leaves_left_subtree == 1 || subtree_leaves <= 1 {
        return Some(1);
    }

    // Otherwise, add 1 to height and recurse into right subtree
    path_length_from_key(subtree_key, subtree_leaves)?.checked_add(1)
}

pub open spec fn spec_verify(root: Seq<u8>, data: Seq<u8>, path: Seq<Seq<u8>>, i: nat, n: nat) -> bool {
    let leaf = spec_leaf_sum(data);
    if n == 0 { false }
    else if n == 1 { path.len() == 0 && i < 1 && root == leaf }
    else if plfk(i, n) != Some(path.len()) { false }
    else if i >= n { false }
    else { model(i, n, leaf, path) == Some(root) }
}

pub fn verify(
    root: &Bytes32,
    data: &[u8],
    proof_set: &ProofSet,
    proof_index: u64,
    num_leaves: u64,
) -> (res: bool)
    requires num_leaves < 0x8000_0000_0000_0000,
    ensures
        res == spec_verify(root@, data@, pview(proof_set@), proof_index as nat, num_leaves as nat),
        res == (audit_root(proof_index as nat, num_leaves as nat, spec_leaf_sum(data@), pview(proof_set@)) == Some(root@)),
{
    proof { theorem_verify_is_audit(root@, data@, pview(proof_set@), proof_index as nat, num_leaves as nat); }
    let ghost path = pview(proof_set@);
    let ghost gi = proof_index as nat;
    let ghost gn = num_leaves as nat;
    proof { assert(path.len() == proof_set@.len()); }
    if num_leaves <= 1 {
        if !proof_set.is_empty() {
            return false;
        }
    } else if Some(proof_set.len()) != path_length_from_key(proof_index, num_leaves) {
        return false;
    }

    if proof_index >= num_leaves {
        return false;
    }

    let mut sum = leaf_sum(data);
    let ghost leaf = sum@;
    if proof_set.is_empty() {
        proof {
            if num_leaves >= 2 { lemma_plfk_bound(gi, gn); }
            assert(root@ == sum@ <==> *root == sum) by {
                if root@ == sum@ { assert(root@ =~= sum@); assert(*root =~= sum); }
            }
        }
        return if num_leaves == 1 { bytes32_eq(root, &sum) } else { false }
    }
    #[allow(clippy::arithmetic_side_effects)] // checked above
    let last_leaf = num_leaves - 1;

    let mut parent = 0usize;
    let mut stable_end = proof_index;
    proof {
        assert((1u64 << 0u64) == 1u64) by (bit_vector);
        assert(path.len() > 0);
        assert(gn >= 2);
        assert(plfk(gi, gn) == Some(path.len()));
    }

    loop
        invariant_except_break
            p1(gi, gn, parent as nat, sum@, stable_end as nat, path) == p1(gi, gn, 0, leaf, gi, path),
        invariant
            parent <= 62,
            proof_index < num_leaves,
            num_leaves < 0x8000_0000_0000_0000,
            (1u64 << (parent as u64)) <= num_leaves,
            parent <= proof_set.len(),
            path == pview(proof_set@),
            gi == proof_index as nat,
            gn == num_leaves as nat,
            gn >= 2,
            plfk(gi, gn) == Some(path.len()),
            leaf == spec_leaf_sum(data@),
            last_leaf == num_leaves - 1,
        ensures
            p1(gi, gn, 0, leaf, gi, path) == (parent as nat, sum@, stable_end as nat, true),
        decreases 64 - parent,
    {
        #[allow(clippy::arithmetic_side_effects)] // path_length_from_key checks
        let height = parent + 1;
        proof {
            let h = height as u64;
            let n = num_leaves;
            let i = proof_index;
            assert(h <= 63 ==> (1u64 << h) > 0) by (bit_vector);
            assert(h <= 63 ==> (1u64 << h) <= 0x8000_0000_0000_0000) by (bit_vector);
            assert(h <= 63 && (1u64 << h) <= n && n < 0x8000_0000_0000_0000 ==> h <= 62) by (bit_vector);
            lemma_shl_pow2(h);
            lemma_shl_pow2(parent as u64);
        }

        let subtree_size = 1u64 << height;
        proof {
            let a = proof_index; let b = subtree_size;
            assert(b > 0 ==> (a / b) * b <= a) by (nonlinear_arith);
            assert(b > 0 ==> (a / b) * b >= 0) by (nonlinear_arith);
            assert(subtree_size as nat == pow2u((parent + 1) as nat));
        }
        #[allow(clippy::arithmetic_side_effects)] // floor(a / b) * b <= a
        let subtree_start_index = proof_index / subtree_size * subtree_size;
        #[allow(clippy::arithmetic_side_effects)]
        let subtree_end_index = subtree_start_index + subtree_size - 1;

        proof {
            let size = pow2u((parent + 1) as nat);
            assert(size == subtree_size as nat);
            assert((gi / size) * size == subtree_start_index as nat) by (nonlinear_arith)
                requires size == subtree_size as nat, gi == proof_index as nat, subtree_size > 0,
                         subtree_start_index == proof_index / subtree_size * subtree_size,
                         (proof_index / subtree_size) * subtree_size <= proof_index;
            assert(((gi / size) * size + size - 1) as nat == subtree_end_index as nat);
        }
        if subtree_end_index >= num_leaves {
            break
        }

        stable_end = subtree_end_index;

        if proof_set.len() < height {
            proof { theorem_verify_is_audit(root@, data@, pview(proof_set@), proof_index as nat, num_leaves as nat); }
            return false
        }

        let proof_data = proof_set[parent];
        proof {
            assert(path[parent as int] == proof_data@);
            assert((1u64 << (parent as u64)) as nat == pow2u(parent as nat));
        }
        #[allow(clippy::arithmetic_side_effects)] // proof_index > subtree_start_index
        if proof_index - subtree_start_index < (1 << parent) {
            sum = node_sum(&sum, &proof_data);
        } else {
            sum = node_sum(&proof_data, &sum);
        }

        #[allow(clippy::arithmetic_side_effects)] // path_length_from_key checks
        {
            parent += 1;
        }
    }

    if stable_end != last_leaf {
        if proof_set.len() <= parent {
            return false
        }
        let proof_data = proof_set[parent];
        proof { assert(path[parent as int] == proof_data@); }
        sum = node_sum(&sum, &proof_data);
        #[allow(clippy::arithmetic_side_effects)] // path_length_from_key checks
        {
            parent += 1;
        }
    }

    let ghost j0 = parent as nat;
    let ghost acc0 = sum@;
    while parent < proof_set.len()
        invariant
            parent <= proof_set.len(),
            path == pview(proof_set@),
            p3(parent as nat, sum@, path) == p3(j0, acc0, path),
            gn >= 2,
            gi < gn,
            plfk(gi, gn) == Some(path.len()),
            leaf == spec_leaf_sum(data@),
        decreases proof_set.len() - parent,
    {
        let proof_data = proof_set[parent];
        proof { assert(path[parent as int] == proof_data@); }
        sum = node_sum(&proof_data, &sum);
        #[allow(clippy::arithmetic_side_effects)] // path_length_from_key checks
        {
            parent += 1;
        }
    }

    proof {
        assert(root@ == sum@ <==> sum == *root) by {
            if root@ == sum@ { assert(root@ =~= sum@); assert(*root =~= sum); }
        }
        assert(p3(j0, acc0, path) == sum@);
        assert(model(gi, gn, leaf, path) == Some(sum@));
    }
    bytes32_eq(&sum, root)
}


// ---------------------------------------------------------------------------------------------
// pure lemmas: plfk == audit_len, audit_root Some => length matches
// ---------------------------------------------------------------------------------------------
proof fn lemma_clog_pow2(h: nat)
    requires h >= 1
    ensures clog(pow2u(h)) == h, split(pow2u(h)) == pow2u((h - 1) as nat)
{
    lemma_pow2u_strict((h - 1) as nat, h);
    lemma_pow2u_pos((h - 1) as nat);
    lemma_clog_unique(pow2u(h), h);
}

proof fn lemma_audit_len_complete(i: nat, h: nat)
    requires i < pow2u(h)
    ensures audit_len(i, pow2u(h)) == h
    decreases h
{
    if h == 0 {
    } else {
        lemma_clog_pow2(h);
        let n = pow2u(h);
        let k = pow2u((h - 1) as nat);
        lemma_pow2u_pos((h - 1) as nat);
        assert(n == 2 * k);
        assert(split(n) == k);
        if i < k { lemma_audit_len_complete(i, (h - 1) as nat); }
        else { lemma_audit_len_complete((i - k) as nat, (h - 1) as nat); }
    }
}

proof fn lemma_plfk_is_audit_len(i: nat, n: nat)
    requires n >= 2, i < n
    ensures plfk(i, n) == Some(audit_len(i, n))
    decreases n
{
    lemma_split_bounds(n);
    lemma_clog_bounds(n);
    let k = split(n);
    if i < k {
        lemma_audit_len_complete(i, (clog(n) - 1) as nat);
    } else if k == 1 || n - k <= 1 {
        assert(n - k == 1);
        assert(audit_len((i - k) as nat, 1) == 0);
    } else {
        lemma_plfk_is_audit_len((i - k) as nat, (n - k) as nat);
    }
}

proof fn lemma_audit_root_len(i: nat, n: nat, leaf: Seq<u8>, path: Seq<Seq<u8>>)
    requires audit_root(i, n, leaf, path) is Some
    ensures i < n, path.len() == audit_len(i, n)
    decreases n
{
    if n >= 2 {
        lemma_split_bounds(n);
        let k = split(n);
        let rest = path.drop_last();
        if i < k { lemma_audit_root_len(i, k, leaf, rest); }
        else { lemma_audit_root_len((i - k) as nat, (n - k) as nat, leaf, rest); }
    }
}


// ---------------------------------------------------------------------------------------------
// arithmetic helpers
// ---------------------------------------------------------------------------------------------
proof fn lemma_pow2u_add(a: nat, b: nat)
    ensures pow2u(a + b) == pow2u(a) * pow2u(b)
    decreases b
{
    if b == 0 {
        assert(pow2u(a) * 1 == pow2u(a)) by (nonlinear_arith);
    } else {
        lemma_pow2u_add(a, (b - 1) as nat);
        assert(pow2u(a + b) == 2 * pow2u((a + b - 1) as nat));
        assert(pow2u(b) == 2 * pow2u((b - 1) as nat));
        assert(pow2u(a) * (2 * pow2u((b - 1) as nat)) == 2 * (pow2u(a) * pow2u((b - 1) as nat))) by (nonlinear_arith);
    }
}

pub open spec fn blk(i: nat, j: nat) -> nat { (i / pow2u(j)) * pow2u(j) }

proof fn lemma_blk_bounds(i: nat, j: nat)
    ensures blk(i, j) <= i, i < blk(i, j) + pow2u(j)
{
    lemma_pow2u_pos(j);
    let s = pow2u(j);
    assert((i / s) * s <= i && i < (i / s) * s + s) by (nonlinear_arith) requires s > 0;
}

proof fn lemma_blk_small(i: nat, j: nat)
    requires i < pow2u(j)
    ensures blk(i, j) == 0
{
    let s = pow2u(j);
    assert((i / s) * s == 0) by (nonlinear_arith) requires i < s, s > 0;
}

proof fn lemma_div_add_mult(x: nat, m: nat, s: nat)
    requires s > 0
    ensures (x + m * s) / s == x / s + m
    decreases m
{
    if m == 0 {
        assert(m * s == 0) by (nonlinear_arith) requires m == 0;
    } else {
        lemma_div_add_mult(x, (m - 1) as nat, s);
        let y = x + (m - 1) as nat * s;
        vstd::arithmetic::div_mod::lemma_div_plus_one(y as int, s as int);
        assert(x + m * s == s + y) by (nonlinear_arith) requires m >= 1, y == x + (m - 1) as nat * s;
    }
}

/// shifting by a multiple of the block size shifts the block start
proof fn lemma_blk_shift(x: nat, m: nat, j: nat)
    ensures blk(x + m * pow2u(j), j) == blk(x, j) + m * pow2u(j)
{
    lemma_pow2u_pos(j);
    let s = pow2u(j);
    lemma_div_add_mult(x, m, s);
    assert((x / s + m) * s == (x / s) * s + m * s) by (nonlinear_arith);
}

/// aligned blocks are nested
proof fn lemma_blk_nested(i: nat, j: nat, h: nat)
    requires j <= h
    ensures blk(i, h) <= blk(i, j), blk(i, j) + pow2u(j) <= blk(i, h) + pow2u(h)
{
    lemma_pow2u_pos(j);
    lemma_pow2u_pos(h);
    lemma_pow2u_add(j, (h - j) as nat);
    let s = pow2u(j);
    let t = pow2u((h - j) as nat);
    let big = pow2u(h);
    assert(big == s * t);
    lemma_pow2u_pos((h - j) as nat);
    lemma_blk_bounds(i, h);
    let base = blk(i, h);
    let r = (i - base) as nat;          // r < big
    // base is a multiple of s: base = (i/big)*t*s
    let m = (i / big) * t;
    assert(base == m * s) by (nonlinear_arith) requires base == (i / big) * big, big == s * t, m == (i / big) * t;
    lemma_blk_shift(r, m, j);
    assert(r + m * s == i);
    assert(blk(i, j) == blk(r, j) + base);
    lemma_blk_bounds(r, j);
    // blk(r,j) + s <= big because r < s*t
    let q = r / s;
    assert(q * s <= r);
    assert(q < t) by (nonlinear_arith) requires q * s <= r, r < s * t, s > 0;
    assert((q + 1) * s <= t * s) by (nonlinear_arith) requires q + 1 <= t;
    assert((q + 1) * s == q * s + s) by (nonlinear_arith);
    assert(t * s == s * t) by (nonlinear_arith);
    assert(blk(r, j) + s <= big);
}

// ---------------------------------------------------------------------------------------------
// complete blocks
// ---------------------------------------------------------------------------------------------
pub open spec fn se_at(i: nat, j: nat) -> nat { if j == 0 { i } else { (blk(i, j) + pow2u(j) - 1) as nat } }

pub open spec fn asc(i: nat, h: nat, leaf: Seq<u8>, path: Seq<Seq<u8>>) -> Seq<u8>
    decreases h
{
    if h == 0 { leaf }
    else {
        let a = asc(i, (h - 1) as nat, leaf, path);
        if i - blk(i, h) < pow2u((h - 1) as nat) { H1(a, path[h - 1]) } else { H1(path[h - 1], a) }
    }
}

proof fn lemma_p1_complete(i: nat, n: nat, j: nat, h: nat, leaf: Seq<u8>, path: Seq<Seq<u8>>)
    requires j <= h, h <= 62, blk(i, h) + pow2u(h) <= n, path.len() >= h
    ensures p1(i, n, j, asc(i, j, leaf, path), se_at(i, j), path) == p1(i, n, h, asc(i, h, leaf, path), se_at(i, h), path)
    decreases h - j
{
    if j < h {
        lemma_blk_nested(i, (j + 1) as nat, h);
        lemma_pow2u_pos((j + 1) as nat);
        let size = pow2u(j + 1);
        let start = (i / size) * size;
        assert(start == blk(i, (j + 1) as nat));
        let end = (start + size - 1) as nat;
        assert(end < n);
        assert(se_at(i, (j + 1) as nat) == end);
        lemma_p1_complete(i, n, (j + 1) as nat, h, leaf, path);
    }
}

proof fn lemma_asc_prefix(i: nat, h: nat, leaf: Seq<u8>, p: Seq<Seq<u8>>, q: Seq<Seq<u8>>)
    requires p.len() >= h, q.len() >= h, forall|x: int| 0 <= x < h ==> p[x] == q[x]
    ensures asc(i, h, leaf, p) == asc(i, h, leaf, q)
    decreases h
{
    if h > 0 { lemma_asc_prefix(i, (h - 1) as nat, leaf, p, q); }
}

/// asc only depends on i modulo 2^h: shifting i by a multiple of 2^h does not change it
proof fn lemma_asc_shift(i: nat, m: nat, h: nat, g: nat, leaf: Seq<u8>, path: Seq<Seq<u8>>)
    requires g <= h
    ensures asc(i + m * pow2u(h), g, leaf, path) == asc(i, g, leaf, path)
    decreases g
{
    if g > 0 {
        lemma_asc_shift(i, m, h, (g - 1) as nat, leaf, path);
        // m * 2^h = (m * 2^(h-g)) * 2^g
        lemma_pow2u_add(g, (h - g) as nat);
        let mm = m * pow2u((h - g) as nat);
        assert(m * pow2u(h) == mm * pow2u(g)) by (nonlinear_arith)
            requires pow2u(h) == pow2u(g) * pow2u((h - g) as nat), mm == m * pow2u((h - g) as nat);
        lemma_blk_shift(i, mm, g);
    }
}

proof fn lemma_complete_audit(i: nat, h: nat, leaf: Seq<u8>, path: Seq<Seq<u8>>)
    requires i < pow2u(h), path.len() == h
    ensures audit_root(i, pow2u(h), leaf, path) == Some(asc(i, h, leaf, path))
    decreases h
{
    lemma_pow2u_pos(h);
    if h == 0 {
    } else {
        lemma_clog_pow2(h);
        let n = pow2u(h);
        let k = pow2u((h - 1) as nat);
        lemma_pow2u_pos((h - 1) as nat);
        assert(n == 2 * k);
        let rest = path.drop_last();
        lemma_blk_small(i, h);
        if i < k {
            lemma_complete_audit(i, (h - 1) as nat, leaf, rest);
            lemma_asc_prefix(i, (h - 1) as nat, leaf, rest, path);
        } else {
            lemma_complete_audit((i - k) as nat, (h - 1) as nat, leaf, rest);
            lemma_asc_prefix((i - k) as nat, (h - 1) as nat, leaf, rest, path);
            lemma_asc_shift((i - k) as nat, 1, (h - 1) as nat, (h - 1) as nat, leaf, path);
            assert((i - k) as nat + 1 * k == i) by (nonlinear_arith) requires i >= k;
        }
    }
}


// ---------------------------------------------------------------------------------------------
// model on complete trees, p3 lemmas
// ---------------------------------------------------------------------------------------------
proof fn lemma_p3_done(j: nat, acc: Seq<u8>, path: Seq<Seq<u8>>)
    requires j >= path.len()
    ensures p3(j, acc, path) == acc
{}

proof fn lemma_p3_snoc(j: nat, acc: Seq<u8>, rest: Seq<Seq<u8>>, x: Seq<u8>)
    requires j <= rest.len()
    ensures p3(j, acc, rest.push(x)) == H1(x, p3(j, acc, rest))
    decreases rest.len() - j
{
    let path = rest.push(x);
    if j < rest.len() {
        assert(path[j as int] == rest[j as int]);
        lemma_p3_snoc(j + 1, H1(rest[j as int], acc), rest, x);
    } else {
        assert(path[j as int] == x);
        assert(p3(j + 1, H1(x, acc), path) == H1(x, acc));
        assert(p3(j, acc, rest) == acc);
    }
}

proof fn lemma_model_pow2(i: nat, hh: nat, leaf: Seq<u8>, path: Seq<Seq<u8>>)
    requires 1 <= hh <= 62, i < pow2u(hh), path.len() == hh
    ensures model(i, pow2u(hh), leaf, path) == Some(asc(i, hh, leaf, path))
{
    let n = pow2u(hh);
    lemma_blk_small(i, hh);
    lemma_p1_complete(i, n, 0, hh, leaf, path);
    assert(asc(i, 0, leaf, path) == leaf);
    assert(se_at(i, 0) == i);
    // one unfolding at level hh: the block of height hh+1 does not fit
    lemma_pow2u_strict(hh, (hh + 1) as nat);
    lemma_blk_small(i, (hh + 1) as nat);
    let size = pow2u(hh + 1);
    assert(size == 2 * n);
    assert((i / size) * size == 0);
    let r = p1(i, n, hh, asc(i, hh, leaf, path), se_at(i, hh), path);
    assert(r == (hh, asc(i, hh, leaf, path), se_at(i, hh), true));
    assert(se_at(i, hh) == n - 1);
    lemma_p3_done(hh, asc(i, hh, leaf, path), path);
}


// ---------------------------------------------------------------------------------------------
// incomplete trees: left case, shift lemma, main induction
// ---------------------------------------------------------------------------------------------
proof fn lemma_pow2u_lt_inv(a: nat, b: nat)
    requires pow2u(a) < pow2u(b)
    ensures a < b
{
    if a >= b { lemma_pow2u_mono(b, a); }
}

proof fn lemma_model_left(i: nat, n: nat, leaf: Seq<u8>, path: Seq<Seq<u8>>)
    requires
        n >= 2, n < pow2u(63), i < split(n), n < 2 * split(n),
        path.len() == clog(n),
    ensures
        model(i, n, leaf, path) == Some(H1(asc(i, (clog(n) - 1) as nat, leaf, path), path[clog(n) - 1])),
{
    lemma_split_bounds(n);
    lemma_clog_bounds(n);
    let h = (clog(n) - 1) as nat;
    let k = pow2u(h);
    assert(k == split(n));
    lemma_pow2u_lt_inv(h, 63);
    lemma_blk_small(i, h);
    lemma_p1_complete(i, n, 0, h, leaf, path);
    assert(asc(i, 0, leaf, path) == leaf);
    assert(se_at(i, 0) == i);
    lemma_pow2u_strict(h, (h + 1) as nat);
    lemma_blk_small(i, (h + 1) as nat);
    let size = pow2u(h + 1);
    assert(size == 2 * k);
    assert((i / size) * size == 0);
    let a = asc(i, h, leaf, path);
    let r = p1(i, n, h, a, se_at(i, h), path);
    assert(r == (h, a, se_at(i, h), true));
    assert(se_at(i, h) != n - 1) by {
        if h == 0 { assert(pow2u(0) == 1); } else { }
    }
    lemma_p3_done(h + 1, H1(a, path[h as int]), path);
}

proof fn lemma_p1_shift(i2: nat, n2: nat, k: nat, h: nat, j: nat, acc: Seq<u8>, se2: nat, rest: Seq<Seq<u8>>, x: Seq<u8>)
    requires
        k == pow2u(h), 1 <= n2 < k, i2 < n2, j <= rest.len(),
        p1(i2, n2, j, acc, se2, rest).3,
    ensures
        ({
            let r2 = p1(i2, n2, j, acc, se2, rest);
            &&& p1(i2 + k, n2 + k, j, acc, se2 + k, rest.push(x)) == (r2.0, r2.1, (r2.2 + k) as nat, true)
            &&& r2.0 <= rest.len()
        }),
    decreases 64 - j
{
    let path = rest.push(x);
    let i = i2 + k;
    let n = n2 + k;
    let size = pow2u(j + 1);
    lemma_pow2u_pos((j + 1) as nat);
    let start2 = (i2 / size) * size;
    let end2 = (start2 + size - 1) as nat;
    let start = (i / size) * size;
    let end = (start + size - 1) as nat;
    assert(start2 == blk(i2, (j + 1) as nat));
    assert(start == blk(i, (j + 1) as nat));
    if j >= 63 {
    } else if end2 >= n2 {
        // sub-run stops here; show the main run stops too
        if j + 1 <= h {
            lemma_pow2u_add((j + 1) as nat, (h - (j + 1)) as nat);
            let m = pow2u((h - (j + 1)) as nat);
            assert(k == m * size) by (nonlinear_arith) requires k == size * m;
            lemma_blk_shift(i2, m, (j + 1) as nat);
            assert(end == end2 + k);
        } else {
            lemma_pow2u_mono((h + 1) as nat, (j + 1) as nat);
            assert(pow2u(h + 1) == 2 * k);
            lemma_blk_small(i, (j + 1) as nat);
            assert(end >= n);
        }
    } else {
        // sub-run continues: size <= n2 < k, hence size divides k
        lemma_blk_bounds(i2, (j + 1) as nat);
        assert(size <= end2 + 1);
        lemma_pow2u_lt_inv((j + 1) as nat, h);
        lemma_pow2u_add((j + 1) as nat, (h - (j + 1)) as nat);
        let m = pow2u((h - (j + 1)) as nat);
        assert(k == m * size) by (nonlinear_arith) requires k == size * m;
        lemma_blk_shift(i2, m, (j + 1) as nat);
        assert(start == start2 + k);
        assert(end == end2 + k);
        assert(rest.len() >= j + 1);
        assert(path[j as int] == rest[j as int]);
        let acc2 = if i2 - start2 < pow2u(j) { H1(acc, rest[j as int]) } else { H1(rest[j as int], acc) };
        lemma_p1_shift(i2, n2, k, h, j + 1, acc2, end2, rest, x);
    }
}

proof fn lemma_p1_ok_of_model(i: nat, n: nat, leaf: Seq<u8>, path: Seq<Seq<u8>>)
    requires model(i, n, leaf, path) is Some
    ensures p1(i, n, 0, leaf, i, path).3
{}

proof fn lemma_model_is_audit(i: nat, n: nat, leaf: Seq<u8>, path: Seq<Seq<u8>>)
    requires n >= 2, n < pow2u(63), i < n, path.len() == audit_len(i, n)
    ensures model(i, n, leaf, path) is Some, model(i, n, leaf, path) == audit_root(i, n, leaf, path)
    decreases n
{
    lemma_split_bounds(n);
    lemma_clog_bounds(n);
    let h = (clog(n) - 1) as nat;
    let k = split(n);
    assert(k == pow2u(h));
    lemma_pow2u_lt_inv(h, 63);
    let rest = path.drop_last();
    let x = path.last();
    assert(path.len() >= 1);
    assert(path =~= rest.push(x));
    if n == 2 * k {
        assert(n == pow2u(h + 1));
        lemma_pow2u_lt_inv((h + 1) as nat, 63);
        lemma_audit_len_complete(i, (h + 1) as nat);
        lemma_model_pow2(i, (h + 1) as nat, leaf, path);
        lemma_complete_audit(i, (h + 1) as nat, leaf, path);
    } else if i < k {
        lemma_audit_len_complete(i, h);
        assert(path.len() == h + 1);
        lemma_model_left(i, n, leaf, path);
        lemma_complete_audit(i, h, leaf, rest);
        lemma_asc_prefix(i, h, leaf, rest, path);
    } else {
        let i2 = (i - k) as nat;
        let n2 = (n - k) as nat;
        if n2 == 1 {
            assert(i2 == 0);
            assert(audit_len(i2, n2) == 0);
            assert(path.len() == 1);
            assert(rest.len() == 0);
            // main run: level 0 block [k, k+2) does not fit in n = k + 1
            assert(k >= 2);
            assert(h >= 1) by { if h == 0 { assert(pow2u(0) == 1); } }
            lemma_pow2u_add(1, (h - 1) as nat);
            assert(pow2u(1) == 2);
            let m = pow2u((h - 1) as nat);
            assert(k == m * 2) by (nonlinear_arith) requires k == 2 * m;
            lemma_blk_shift(0, m, 1);
            lemma_blk_small(0, 1);
            assert(blk(i, 1) == k);
            let r = p1(i, n, 0, leaf, i, path);
            assert(r == (0nat, leaf, i, true));
            assert(p3(1, H1(path[0], leaf), path) == H1(path[0], leaf));
            assert(p3(0, leaf, path) == H1(path[0], leaf));
            assert(audit_root(i2, n2, leaf, rest) == Some(leaf));
        } else {
            lemma_model_is_audit(i2, n2, leaf, rest);
            lemma_p1_ok_of_model(i2, n2, leaf, rest);
            lemma_p1_shift(i2, n2, k, h, 0, leaf, i2, rest, x);
            let r2 = p1(i2, n2, 0, leaf, i2, rest);
            let r = p1(i, n, 0, leaf, i, path);
            assert(i2 + k == i && n2 + k == n);
            assert(r == (r2.0, r2.1, (r2.2 + k) as nat, true));
            if r2.2 != n2 - 1 {
                assert(rest.len() > r2.0);
                assert(path[r2.0 as int] == rest[r2.0 as int]);
                lemma_p3_snoc(r2.0 + 1, H1(r2.1, rest[r2.0 as int]), rest, x);
            } else {
                lemma_p3_snoc(r2.0, r2.1, rest, x);
            }
        }
    }
}


// ---------------------------------------------------------------------------------------------
// TOP-LEVEL THEOREM: the verifier accepts exactly when the RFC 6962 audit-path recomputation
// reaches the root
// ---------------------------------------------------------------------------------------------
proof fn lemma_two63()
    ensures pow2u(63) == 0x8000_0000_0000_0000
{
    lemma_shl_pow2(63);
    assert((1u64 << 63u64) == 0x8000_0000_0000_0000u64) by (bit_vector);
}

pub proof fn theorem_verify_is_audit(root: Seq<u8>, data: Seq<u8>, path: Seq<Seq<u8>>, i: nat, n: nat)
    requires n < 0x8000_0000_0000_0000
    ensures spec_verify(root, data, path, i, n) == (audit_root(i, n, spec_leaf_sum(data), path) == Some(root))
{
    lemma_two63();
    let leaf = spec_leaf_sum(data);
    if n >= 2 {
        lemma_plfk_bound(i, n);
        if i < n {
            lemma_plfk_is_audit_len(i, n);
            if path.len() == audit_len(i, n) {
                lemma_model_is_audit(i, n, leaf, path);
            } else {
                if audit_root(i, n, leaf, path) is Some { lemma_audit_root_len(i, n, leaf, path); }
            }
        }
    }
}

} // verus!
fn main() {}
