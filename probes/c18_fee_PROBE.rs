use vstd::prelude::*;
use vstd::arithmetic::div_mod::*;
use vstd::arithmetic::mul::*;
verus! {

pub type Word = u64;

pub open spec fn ceil_div(a: nat, b: nat) -> nat { if a % b == 0 { a / b } else { a / b + 1 } }

pub assume_specification [ u128::div_ceil ] (a: u128, b: u128) -> (r: u128)
    requires b != 0
    ensures r as nat == ceil_div(a as nat, b as nat);

// ---- verbatim from fuel-tx/src/transaction/fee.rs ----
fn gas_to_fee(gas: Word, gas_price: Word, factor: Word) -> (r: u128)
    requires factor >= 1
    ensures r as nat == ceil_div(gas as nat * gas_price as nat, factor as nat)
{
    proof {
        assert(gas as nat * gas_price as nat <= 0xffff_ffff_ffff_ffff * 0xffff_ffff_ffff_ffff) by (nonlinear_arith)
            requires gas as nat <= 0xffff_ffff_ffff_ffff, gas_price as nat <= 0xffff_ffff_ffff_ffff;
    }
    let total_price = (gas as u128)
        .checked_mul(gas_price as u128)
        .expect("Impossible to overflow because multiplication of two `u64` <= `u128`");
    total_price.div_ceil(factor as u128)
}

/// ceil(a*p/f) is monotone in a
pub proof fn lemma_fee_monotone(a: nat, b: nat, p: nat, f: nat)
    requires a <= b, f >= 1
    ensures ceil_div(a * p, f) <= ceil_div(b * p, f)
{
    assert(a * p <= b * p) by (nonlinear_arith) requires a <= b;
    let x = a * p; let y = b * p;
    lemma_div_is_ordered(x as int, y as int, f as int);
    if x % f != 0 && y % f == 0 {
        // x/f + 1 <= y/f because x < y and y is a multiple of f above x
        lemma_fundamental_div_mod(x as int, f as int);
        lemma_fundamental_div_mod(y as int, f as int);
        assert(x / f < y / f) by (nonlinear_arith)
            requires x == f * (x / f) + x % f, y == f * (y / f), x <= y, x % f > 0, f >= 1, x / f <= y / f;
    }
}

}
fn main() {}
