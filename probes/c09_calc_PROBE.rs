use vstd::prelude::*;
use core::convert::Infallible;
verus! {

pub type Bytes32 = [u8; 32];

pub uninterp spec fn spec_leaf_sum(data: Seq<u8>) -> Seq<u8>;
pub uninterp spec fn spec_node_sum(l: Seq<u8>, r: Seq<u8>) -> Seq<u8>;
pub uninterp spec fn spec_empty_sum() -> Seq<u8>;

#[verifier::external_body]
pub fn leaf_sum(data: &[u8]) -> (r: Bytes32)
    ensures r@ == spec_leaf_sum(data@)
{ unimplemented!() }

#[verifier::external_body]
pub fn node_sum(lhs_data: &Bytes32, rhs_data: &Bytes32) -> (r: Bytes32)
    ensures r@ == spec_node_sum(lhs_data@, rhs_data@)
{ unimplemented!() }

#[verifier::external_body]
pub fn empty_sum() -> (r: &'static Bytes32)
    ensures r@ == spec_empty_sum()
{ unimplemented!() }

pub open spec fn pow2u(k: nat) -> nat decreases k { if k == 0 { 1 } else { 2 * pow2u((k-1) as nat) } }

#[derive(Debug)]
pub enum GetNodeError { CannotExist, IsLeaf }

#[derive(Copy, Clone)]
pub struct Position(pub u64);

/// peak position of height h in a calculator: 2^h - 1
pub open spec fn peak(h: nat) -> u64 { (pow2u(h) - 1) as u64 }

impl Position {
    // contracts below are proved in Kani (complete over h in 0..=63), assumed here
    #[verifier::external_body]
    pub fn from_leaf_index(index: u64) -> (r: Option<Self>)
        ensures index == 0 ==> r == Some(Position(0))
    { unimplemented!() }

    #[verifier::external_body]
    pub fn parent(self) -> (r: Result<Self, GetNodeError>)
        ensures
            forall|h: nat| h <= 62 && self.0 == peak(h) ==> #[trigger] peak(h) == self.0 && r is Ok && r->Ok_0.0 == peak(h + 1),
            self.0 == peak(63) ==> r is Err,
    { unimplemented!() }

    #[verifier::external_body]
    pub fn height(self) -> (r: u32)
        ensures forall|h: nat| h <= 63 && self.0 == peak(h) ==> #[trigger] peak(h) == self.0 && r as nat == h
    { unimplemented!() }
}

pub struct Node {
    pub position: Position,
    pub hash: Bytes32,
}

pub open spec fn H1(l: Seq<u8>, r: Seq<u8>) -> Seq<u8> { spec_node_sum(l, r) }

/// a calculator node sits at position 2^h - 1
pub open spec fn wfn(n: Node) -> bool { exists|h: nat| h <= 63 && n.position.0 == peak(h) }
pub open spec fn nh(n: Node) -> nat { choose|h: nat| h <= 63 && n.position.0 == peak(h) }

proof fn lemma_pow2u_pos(k: nat)
    ensures pow2u(k) >= 1
    decreases k
{ if k > 0 { lemma_pow2u_pos((k - 1) as nat); } }

proof fn lemma_pow2u_mono(a: nat, b: nat)
    requires a <= b
    ensures pow2u(a) <= pow2u(b)
    decreases b
{
    if a < b { lemma_pow2u_mono(a, (b - 1) as nat); lemma_pow2u_pos((b - 1) as nat); }
}

proof fn lemma_pow2u_strict(a: nat, b: nat)
    requires a < b
    ensures pow2u(a) < pow2u(b)
{
    lemma_pow2u_mono((a + 1) as nat, b);
    lemma_pow2u_pos(a);
}

proof fn lemma_pow2u_64()
    ensures pow2u(64) == 0x1_0000_0000_0000_0000
{
    assert(pow2u(64) == 0x1_0000_0000_0000_0000) by (compute);
}

/// peak is injective on 0..=63 and nh picks the right height
proof fn lemma_nh(n: Node, h: nat)
    requires h <= 63, n.position.0 == peak(h)
    ensures wfn(n), nh(n) == h
{
    let g = nh(n);
    lemma_pow2u_64();
    lemma_pow2u_pos(h); lemma_pow2u_pos(g);
    lemma_pow2u_mono(h, 64); lemma_pow2u_mono(g, 64);
    if g < h { lemma_pow2u_strict(g, h); } else if h < g { lemma_pow2u_strict(h, g); }
}

pub type Abs = Seq<(nat, Seq<u8>)>;
pub open spec fn sv(st: Seq<Node>) -> Abs { st.map_values(|n: Node| (nh(n), n.hash@)) }
pub open spec fn all_wf(st: Seq<Node>) -> bool { forall|i: int| 0 <= i < st.len() ==> wfn(#[trigger] st[i]) }

/// abstract carry propagation of `push_with_callback`
pub open spec fn carry(s: Abs) -> Abs
    decreases s.len()
{
    if s.len() >= 2 && s[s.len() - 1].0 == s[s.len() - 2].0 {
        let l = s[s.len() - 2];
        let r = s[s.len() - 1];
        carry(s.subrange(0, s.len() - 2).push((l.0 + 1, H1(l.1, r.1))))
    } else { s }
}

/// abstract right-nested fold of `root`
pub open spec fn fold(s: Abs) -> Seq<u8>
    decreases s.len()
{
    if s.len() == 0 { spec_empty_sum() }
    else if s.len() == 1 { s[0].1 }
    else {
        let l = s[s.len() - 2];
        let r = s[s.len() - 1];
        fold(s.subrange(0, s.len() - 2).push((l.0 + 1, H1(l.1, r.1))))
    }
}

impl Node {
    pub fn new(position: Position, hash: Bytes32) -> Self {
        Self { position, hash }
    }

    /// Returns `None` if the leaf cannot be created due to incorrect position.
    pub fn create_leaf(index: u64, data: &[u8]) -> (r: Option<Self>)
        ensures index == 0 ==> r is Some && r->Some_0.position.0 == 0 && r->Some_0.hash@ == spec_leaf_sum(data@)
    {
        let position = Position::from_leaf_index(index)?;
        let hash = leaf_sum(data);
        Some(Self { position, hash })
    }

    /// Creates a new node with the given children.
    pub fn create_node(
        position: Position,
        left_child: &Self,
        right_child: &Self,
    ) -> (r: Self)
        ensures r.position == position, r.hash@ == H1(left_child.hash@, right_child.hash@)
    {
        let hash = node_sum(left_child.hash(), right_child.hash());
        Self { position, hash }
    }

    pub fn position(&self) -> (r: &Position)
        ensures *r == self.position
    {
        &self.position
    }

    pub fn hash(&self) -> (r: &Bytes32)
        ensures *r == self.hash
    {
        &self.hash
    }

    pub fn height(&self) -> (r: u32)
        ensures wfn(*self) ==> r as nat == nh(*self)
    {
        self.position().height()
    }
}

#[derive(Debug)]
pub enum NodeStackPushError<E> {
    Callback(E),
    TooLarge,
}

pub struct MerkleRootCalculator {
    stack: Vec<Node>,
}

impl MerkleRootCalculator {
    fn new() -> Self {
        Self { stack: Vec::new() }
    }

    fn clear(&mut self) {
        self.stack.clear();
    }

    // NOTE (probe): `push` (create_leaf(0, data) + push_with_callback::<_, Infallible>(.., |_| Ok(())).expect(..))
    // verified except for the `.expect`: Verus cannot relate the `mut` closure parameter inside the
    // loop to `old(node_created)` in the postcondition, so "callback never fails => result is Ok"
    // is not provable across the loop; see DESIGN.md C09.
    /// Push a leaf to stack of nodes, propagating changes through the tree.
    /// Calls `node_created` for each new node created, stopping on first error.
    fn push_with_callback<F, E>(
        &mut self,
        node: Node,
        mut node_created: F,
    ) -> (res: Result<(), NodeStackPushError<E>>)
    where
        F: FnMut(&Node) -> Result<(), E>,
        requires
            all_wf(old(self).stack@),
            wfn(node),
            forall|n: &Node| #[trigger] node_created.requires((n,)),
        ensures
            res is Ok ==> all_wf(final(self).stack@)
                && sv(final(self).stack@) == carry(sv(old(self).stack@).push((nh(node), node.hash@))),
    {
        let ghost c0 = carry(sv(self.stack@).push((nh(node), node.hash@)));
        let ghost old_st = self.stack@;
        let ghost hyp = (forall|i: int| 0 <= i < old_st.len() ==> nh(#[trigger] old_st[i]) <= 62);
        node_created(&node).map_err(|e| NodeStackPushError::Callback(e))?;
        proof { assert(sv(self.stack@.push(node)) =~= sv(self.stack@).push((nh(node), node.hash@))); }
        self.stack.push(node);

        // Propagate changes through the tree.
        #[allow(clippy::arithmetic_side_effects)] // ensured by loop condition
        while self.stack.len() > 1
            invariant
                all_wf(self.stack@),
                carry(sv(self.stack@)) == c0,
                forall|n: &Node| #[trigger] node_created.requires((n,)),
                self.stack@.len() >= 1,
                old_st == old(self).stack@,
                self.stack@.len() - 1 <= old_st.len(),
                forall|i: int| 0 <= i < self.stack@.len() - 1 ==> #[trigger] self.stack@[i] == old_st[i],
                hyp == (forall|i: int| 0 <= i < old_st.len() ==> nh(#[trigger] old_st[i]) <= 62),
            ensures
                all_wf(self.stack@),
                sv(self.stack@) == c0,
            decreases self.stack.len(),
        {
            let rhs = &self.stack[self.stack.len() - 1];
            let lhs = &self.stack[self.stack.len() - 2];
            if rhs.height() != lhs.height() {
                break;
            }

            proof {
                let k = self.stack@.len() - 2;
                assert(self.stack@[k] == old_st[k]);
                if hyp {
                    assert(nh(old_st[k]) <= 62);
                    assert(wfn(self.stack@[k]));
                    assert(lhs.position.0 == peak(nh(*lhs)));
                }
            }
            let parent_pos = lhs
                .position()
                .parent()
                .map_err(|_e| NodeStackPushError::TooLarge)?;
            let new = Node::create_node(parent_pos, lhs, rhs);
            let ghost st = self.stack@;
            let ghost n = st.len() as int;
            proof {
                let l = st[n - 2];
                let r = st[n - 1];
                assert(wfn(l) && wfn(r));
                assert(nh(l) == nh(r));
                assert(nh(l) <= 62) by { if nh(l) == 63 { assert(l.position.0 == peak(63)); } }
                assert(l.position.0 == peak(nh(l)));
                lemma_nh(new, nh(l) + 1);
                assert(sv(st)[n - 2] == (nh(l), l.hash@));
                assert(sv(st)[n - 1] == (nh(r), r.hash@));
            }
            node_created(&new).map_err(|e| NodeStackPushError::Callback(e))?;
            let _ = self.stack.pop();
            let _ = self.stack.pop();
            self.stack.push(new);
            proof {
                assert(self.stack@ =~= st.subrange(0, n - 2).push(new));
                assert(sv(self.stack@) =~= sv(st).subrange(0, n - 2).push((nh(new), new.hash@)));
            }
        }

        Ok(())
    }

    fn root(self) -> (r: Bytes32)
        requires
            all_wf(self.stack@),
            forall|i: int| 0 <= i < self.stack@.len() ==> nh(#[trigger] self.stack@[i]) <= 62,
        ensures
            r@ == fold(sv(self.stack@)),
    {
        let mut self_ = self;
        let ghost f0 = fold(sv(self.stack@));
        if self_.stack.is_empty() {
            return *empty_sum()
        }
        while self_.stack.len() > 1
            invariant
                self_.stack@.len() >= 1,
                fold(sv(self_.stack@)) == f0,
                forall|i: int| 0 <= i < self_.stack@.len() - 1 ==> wfn(#[trigger] self_.stack@[i]) && nh(self_.stack@[i]) <= 62,
            decreases self_.stack.len(),
        {
            let ghost st = self_.stack@;
            let ghost n = st.len() as int;
            let right_child = self_.stack.pop().expect("Checked in loop bound");
            let left_child = self_.stack.pop().expect("Checked in loop bound");
            let merged_pos = left_child
                .position()
                .parent()
                .expect("Left child has no parent");
            let merged_node = Node::create_node(merged_pos, &left_child, &right_child);
            proof {
                assert(left_child.position.0 == peak(nh(left_child)));
                lemma_nh(merged_node, nh(left_child) + 1);
            }
            self_.stack.push(merged_node);
            proof {
                assert(self_.stack@ =~= st.subrange(0, n - 2).push(merged_node));
                assert(sv(st)[n - 2] == (nh(left_child), left_child.hash@));
                assert(sv(st)[n - 1] == (nh(right_child), right_child.hash@));
                assert(sv(self_.stack@) =~= sv(st).subrange(0, n - 2).push((nh(merged_node), merged_node.hash@)));
            }
        }
        *self_.stack.pop().unwrap().hash()
    }
}

/// ceil(log2 n)
pub open spec fn clog(n: nat) -> nat decreases n {
    if n <= 1 { 0 } else { 1 + clog(((n + 1) / 2) as nat) }
}

/// largest power of two strictly below n (n >= 2)
pub open spec fn split(n: nat) -> nat {
    pow2u((clog(n) - 1) as nat)
}

proof fn lemma_clog_bounds(n: nat)
    requires n >= 2
    ensures clog(n) >= 1, pow2u((clog(n) - 1) as nat) < n, n <= pow2u(clog(n))
    decreases n
{
    let m = ((n + 1) / 2) as nat;
    if m >= 2 {
        lemma_clog_bounds(m);
        let c = clog(m);
        assert(pow2u(c) == 2 * pow2u((c - 1) as nat));
        assert(clog(n) == c + 1);
        assert(pow2u((c + 1) as nat) == 2 * pow2u(c));
    } else {
        assert(n == 2);
        assert(clog(1) == 0);
        assert(clog(2) == 1 + clog(1));
        assert(pow2u(1) == 2 * pow2u(0));
    }
}

proof fn lemma_clog_unique(n: nat, c: nat)
    requires n >= 2, c >= 1, pow2u((c - 1) as nat) < n, n <= pow2u(c)
    ensures clog(n) == c
{
    lemma_clog_bounds(n);
    let d = clog(n);
    if d < c {
        lemma_pow2u_mono(d, (c - 1) as nat);
    } else if c < d {
        lemma_pow2u_mono(c, (d - 1) as nat);
    }
}

proof fn lemma_split_bounds(n: nat)
    requires n >= 2
    ensures 1 <= split(n) < n, n <= 2 * split(n)
{
    lemma_clog_bounds(n);
    lemma_pow2u_pos((clog(n) - 1) as nat);
    assert(pow2u(clog(n)) == 2 * pow2u((clog(n) - 1) as nat));
}

proof fn lemma_clog_pow2(h: nat)
    requires h >= 1
    ensures clog(pow2u(h)) == h, split(pow2u(h)) == pow2u((h - 1) as nat)
{
    lemma_pow2u_strict((h - 1) as nat, h);
    lemma_pow2u_pos((h - 1) as nat);
    lemma_clog_unique(pow2u(h), h);
}


// ---------------------------------------------------------------------------------------------
// RFC 6962 Merkle tree hash and the representation invariant of the calculator stack
// ---------------------------------------------------------------------------------------------
pub open spec fn mth(d: Seq<Seq<u8>>) -> Seq<u8>
    decreases d.len()
{
    if d.len() == 0 { spec_empty_sum() }
    else if d.len() == 1 { spec_leaf_sum(d[0]) }
    else {
        let k = split(d.len());
        if 0 < k < d.len() { H1(mth(d.subrange(0, k as int)), mth(d.subrange(k as int, d.len() as int))) }
        else { spec_empty_sum() }
    }
}

pub open spec fn rep(s: Abs, d: Seq<Seq<u8>>) -> bool
    decreases s.len()
{
    if s.len() == 0 { d.len() == 0 }
    else {
        let (h, x) = s.last();
        let b = pow2u(h);
        &&& b <= d.len()
        &&& x == mth(d.subrange(d.len() - b, d.len() as int))
        &&& rep(s.drop_last(), d.subrange(0, d.len() - b))
        &&& (s.len() >= 2 ==> s[s.len() - 2].0 > h)
    }
}

pub open spec fn rep_loose(s: Abs, d: Seq<Seq<u8>>) -> bool {
    &&& s.len() >= 1
    &&& pow2u(s.last().0) <= d.len()
    &&& s.last().1 == mth(d.subrange(d.len() - pow2u(s.last().0), d.len() as int))
    &&& rep(s.drop_last(), d.subrange(0, d.len() - pow2u(s.last().0)))
    &&& (s.len() >= 2 ==> s[s.len() - 2].0 >= s.last().0)
}

proof fn lemma_mth_pair(dd: Seq<Seq<u8>>, h: nat)
    requires dd.len() == pow2u(h + 1)
    ensures mth(dd) == H1(mth(dd.subrange(0, pow2u(h) as int)), mth(dd.subrange(pow2u(h) as int, dd.len() as int)))
{
    lemma_clog_pow2((h + 1) as nat);
    lemma_pow2u_pos(h);
    assert(pow2u(h + 1) == 2 * pow2u(h));
}

proof fn lemma_carry_rep(t: Abs, e: Seq<Seq<u8>>)
    requires rep_loose(t, e)
    ensures rep(carry(t), e)
    decreases t.len()
{
    let n = t.len() as int;
    if n >= 2 && t[n - 1].0 == t[n - 2].0 {
        let h = t[n - 1].0;
        let b = pow2u(h);
        lemma_pow2u_pos(h);
        let xl = t[n - 2].1;
        let xr = t[n - 1].1;
        let len = e.len() as int;
        let e1 = e.subrange(0, len - b);
        let t1 = t.drop_last();
        assert(t1.last() == t[n - 2]);
        // unfold rep(t1, e1)
        assert(b <= e1.len());
        let u = t.subrange(0, n - 2);
        assert(t1.drop_last() =~= u);
        let dd = e.subrange(len - 2 * b, len);
        assert(dd.subrange(0, b as int) =~= e1.subrange(e1.len() - b, e1.len() as int));
        assert(dd.subrange(b as int, dd.len() as int) =~= e.subrange(len - b, len));
        assert(pow2u(h + 1) == 2 * b);
        lemma_mth_pair(dd, h);
        let t2 = u.push((h + 1, H1(xl, xr)));
        assert(t2.drop_last() =~= u);
        assert(e.subrange(0, len - 2 * b) =~= e1.subrange(0, e1.len() - b));
        assert(rep_loose(t2, e)) by {
            if u.len() >= 1 {
                assert(t1[t1.len() - 2] == u.last());
            }
        }
        lemma_carry_rep(t2, e);
    } else {
        // carry(t) == t and the heights are strictly ordered
    }
}

proof fn lemma_push_rep(s: Abs, d: Seq<Seq<u8>>, x: Seq<u8>)
    requires rep(s, d)
    ensures rep(carry(s.push((0nat, spec_leaf_sum(x)))), d.push(x))
{
    let t = s.push((0nat, spec_leaf_sum(x)));
    let e = d.push(x);
    assert(pow2u(0) == 1);
    assert(e.subrange(e.len() - 1, e.len() as int) =~= seq![x]);
    assert(e.subrange(0, e.len() - 1) =~= d);
    assert(t.drop_last() =~= s);
    assert(mth(seq![x]) == spec_leaf_sum(x));
    lemma_carry_rep(t, e);
}

/// generalized fold invariant: the top element accumulates mth of the tail d[m..]
proof fn lemma_fold_acc(s: Abs, d: Seq<Seq<u8>>, m: int)
    requires
        s.len() >= 1, 0 <= m < d.len(),
        s.last().1 == mth(d.subrange(m, d.len() as int)),
        rep(s.drop_last(), d.subrange(0, m)),
        s.len() >= 2 ==> d.len() - m < pow2u(s[s.len() - 2].0),
    ensures fold(s) == mth(d)
    decreases s.len()
{
    let n = s.len() as int;
    if n == 1 {
        assert(s.drop_last().len() == 0);
        assert(m == 0);
        assert(d.subrange(0, d.len() as int) =~= d);
    } else {
        let s1 = s.drop_last();
        let (hl, xl) = s1.last();
        assert(s1.last() == s[n - 2]);
        let bl = pow2u(hl);
        lemma_pow2u_pos(hl);
        let d1 = d.subrange(0, m);
        // from rep(s1, d1)
        assert(bl <= m);
        let u = s.subrange(0, n - 2);
        assert(s1.drop_last() =~= u);
        let dd = d.subrange(m - bl, d.len() as int);
        let r = d.len() - m;
        assert(dd.len() == bl + r);
        assert(pow2u(hl + 1) == 2 * bl);
        lemma_clog_unique(dd.len(), (hl + 1) as nat);
        assert(split(dd.len()) == bl);
        assert(dd.subrange(0, bl as int) =~= d1.subrange(d1.len() - bl, d1.len() as int));
        assert(dd.subrange(bl as int, dd.len() as int) =~= d.subrange(m, d.len() as int));
        assert(mth(dd) == H1(xl, s.last().1));
        let s2 = u.push((hl + 1, H1(xl, s.last().1)));
        assert(s2.drop_last() =~= u);
        assert(d.subrange(0, m - bl) =~= d1.subrange(0, d1.len() - bl));
        if u.len() >= 1 {
            assert(s1[s1.len() - 2] == u.last());
            assert(s2[s2.len() - 2] == u.last());
            lemma_pow2u_mono((hl + 1) as nat, u.last().0);
        }
        lemma_fold_acc(s2, d, m - bl);
    }
}

proof fn lemma_fold_rep(s: Abs, d: Seq<Seq<u8>>)
    requires rep(s, d)
    ensures fold(s) == mth(d)
{
    if s.len() >= 1 {
        let (h, x) = s.last();
        lemma_pow2u_pos(h);
        if s.len() >= 2 { lemma_pow2u_strict(h, s[s.len() - 2].0); }
        lemma_fold_acc(s, d, d.len() - pow2u(h));
    }
}

/// all heights stay below 63 as long as there are fewer than 2^63 leaves
proof fn lemma_rep_heights(s: Abs, d: Seq<Seq<u8>>, i: int)
    requires rep(s, d), d.len() < pow2u(63), 0 <= i < s.len()
    ensures s[i].0 <= 62
    decreases s.len()
{
    let (h, x) = s.last();
    if i == s.len() - 1 {
        if h >= 63 { lemma_pow2u_mono(63, h); }
    } else {
        lemma_rep_heights(s.drop_last(), d.subrange(0, d.len() - pow2u(h)), i);
    }
}


// ---------------------------------------------------------------------------------------------
// TOP LEVEL: the abstract stack reached by pushing the leaves d one by one represents d, and
// folding it gives the RFC 6962 tree hash
// ---------------------------------------------------------------------------------------------
pub open spec fn calc_of(d: Seq<Seq<u8>>) -> Abs
    decreases d.len()
{
    if d.len() == 0 { Seq::<(nat, Seq<u8>)>::empty() }
    else { carry(calc_of(d.drop_last()).push((0nat, spec_leaf_sum(d.last())))) }
}

pub proof fn theorem_calculator_is_mth(d: Seq<Seq<u8>>)
    ensures rep(calc_of(d), d), fold(calc_of(d)) == mth(d)
    decreases d.len()
{
    if d.len() == 0 {
    } else {
        theorem_calculator_is_mth(d.drop_last());
        lemma_push_rep(calc_of(d.drop_last()), d.drop_last(), d.last());
        assert(d.drop_last().push(d.last()) =~= d);
    }
    lemma_fold_rep(calc_of(d), d);
}

} // verus!
fn main() {}
