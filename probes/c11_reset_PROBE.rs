use vstd::prelude::*;
use core::marker::PhantomData;
verus! {

pub struct Node { pub position: u64, pub hash: [u8; 32] }

pub struct MerkleRootCalculator {
    pub stack: Vec<Node>,
}

impl MerkleRootCalculator {
    pub fn new() -> (r: Self)
        ensures r.stack@.len() == 0
    {
        Self { stack: Vec::new() }
    }

    pub fn clear(&mut self)
        ensures final(self).stack@.len() == 0
    {
        self.stack.clear();
    }
}

pub struct MerkleTree<TableType, StorageType> {
    storage: StorageType,
    nodes: MerkleRootCalculator,
    leaves_count: u64,
    phantom_table: PhantomData<TableType>,
}

impl<TableType, StorageType> MerkleTree<TableType, StorageType> {
    /// abstract state: (leaves_count, number of peaks)
    spec fn view_is_fresh(&self) -> bool { self.leaves_count == 0 && self.nodes.stack@.len() == 0 }

    fn new(storage: StorageType) -> (r: Self)
        ensures r.view_is_fresh()
    {
        Self {
            storage,
            nodes: MerkleRootCalculator::new(),
            leaves_count: 0,
            phantom_table: PhantomData,
        }
    }

    fn leaves_count(&self) -> (r: u64)
        ensures r == self.leaves_count
    {
        self.leaves_count
    }

    // ---- verbatim from fuel-merkle/src/binary/merkle_tree.rs (unfixed tree) ----
    fn reset(&mut self)
        ensures final(self).view_is_fresh()      // O-C11.1: reset yields the abstract state of new()
    {
        self.nodes.clear();
    }
}

}
fn main() {}
