#!/bin/sh
# Build the framework's caches from files on disk only (offline): warm the Kani target directory
# (dependencies of every package that has harnesses) and the Verus toolchain.
set -e
cd "$(dirname "$0")"
export CARGO_NET_OFFLINE=true
python3 - <<'PY'
import sys, os
sys.path.insert(0, "engine")
import kani, json
with kani.Lock():
    kani.sync_overlay()
    pk = sorted({(m["pkg"], m.get("features") or "") for m in kani.inject_spec()["modules"]})
    for pkg, feats in pk:
        cmd = ["cargo", "kani", "-p", pkg, "--target-dir", kani.TARGET, "--only-codegen", "-Z", "stubbing", "-Z", "function-contracts"]
        if feats:
            cmd += ["--features", feats]
        rc, out, err, wall = kani.run(cmd, cwd=kani.OVERLAY, env=kani.ENV, timeout=3000)
        print("warm", pkg, "rc", rc, "%.0fs" % wall)
        if rc != 0:
            print(err[-3000:])
            sys.exit(1)
PY
echo 'fn main(){}' > build/verus_warm.rs && (cd build && verus verus_warm.rs >/dev/null 2>&1 || true)
echo setup done
