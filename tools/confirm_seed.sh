#!/bin/sh
# usage: confirm_seed.sh <worktree> <crate> <patch> <demo.rs> <demo-dest-relative-path> <test-name-or-filter> [mod-registration-file:line-to-add]
# Confirms in a scratch worktree: demo passes without patch, fails with patch, existing suite passes with patch.
WT=$1; CRATE=$2; PATCH=$3; DEMO=$4; DEST=$5; TEST=$6; REG=$7
export CARGO_TARGET_DIR=$WT/target CARGO_NET_OFFLINE=true
cd $WT && git checkout -q -- . && git clean -fdq -e target
mkdir -p $(dirname $WT/$DEST); cp $DEMO $WT/$DEST
if [ -n "$REG" ]; then f=${REG%%:*}; l=${REG#*:}; echo "$l" >> $WT/$f; fi
case "$DEST" in */tests/*.rs) case "$DEST" in */src/*) RUN="--lib $TEST";; *) RUN="--test $TEST";; esac;; esac
echo "== demo without patch"; cargo test -p $CRATE --offline $RUN 2>&1 | grep -E "^test result|error(\[|:)" | head -5
git apply $PATCH || { echo APPLY-FAILED; exit 1; }
echo "== demo with patch"; cargo test -p $CRATE --offline $RUN 2>&1 | grep -E "^test result|error(\[|:)" | head -5
rm -f $WT/$DEST; if [ -n "$REG" ]; then git checkout -q -- ${REG%%:*}; git apply $PATCH 2>/dev/null; fi
echo "== existing suite with patch"; cargo test -p $CRATE --offline 2>&1 | grep -E "^test result|error(\[|:)" | head -8
git checkout -q -- . && git clean -fdq -e target
