#!/bin/sh
# debugging helper: compile the overlay for one package and print only the error blocks
cd /verif/build/kani/repo && CARGO_NET_OFFLINE=true cargo kani -p "$1" ${2:+--features $2} --target-dir /verif/build/kani/target --only-codegen -Z stubbing -Z function-contracts 2>&1 | grep -E "^error" -A7 | grep -v "^ *|$" | cut -c1-260 | head -${3:-60}
