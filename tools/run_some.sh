#!/bin/sh
# usage: tools/run_some.sh <tier> <prop>...   -- like run_all.sh for a subset
cd /verif
T=$1; shift
for p in "$@"; do
  s=$(date +%s); ./check $p --tier $T > build/run_$p.log 2>&1; rc=$?; e=$(date +%s)
  echo "$p rc=$rc $((e-s))s $(tail -1 build/run_$p.log)"
done
