#!/usr/bin/env python3
"""Regenerate /verif/MANIFEST.json from units/registry.json (single source of truth)."""
import json, os
V = os.path.dirname(os.path.dirname(os.path.abspath(__file__)))
reg = json.load(open(os.path.join(V, "units", "registry.json")))
props = [json.loads(l) for l in open(os.path.join(V, "properties.jsonl"))]
checks, na = [], []
for p in props:
    pid = p["id"]
    P = reg["properties"].get(pid)
    if P and P.get("claimed", True):
        checks.append({
            "property_id": pid,
            "quick_cmd": "./check %s --tier quick" % pid,
            "thorough_cmd": "./check %s --tier thorough" % pid,
            "evidence_file": "/verif/evidence/%s.json" % pid,
            "replay_cmd_template": "./check %s --replay {path}" % pid,
            "engine": P.get("engine", "contracts"),
            "level_claimed": {"category": P.get("level", "proof"), "text": P["level_text"], "design_ref": "DESIGN.md §3 " + pid},
            "level_note": P["level_note"],
            "technique": P.get("technique", "contract-based deductive verification"),
        })
    else:
        reason = reg["not_applicable"].get(pid) or "not yet built in this session; see DESIGN.md §3 " + pid
        na.append({"property_id": pid, "reason": reason})
m = {
    "version": 1,
    "setup_cmd": "./setup.sh",
    "hooks": {
        "guard": "cfg(kani)",
        "enable": "no hook is committed in /repo: every check mirrors /repo's working tree into /verif/build/kani/repo (rsync), appends `#[cfg(kani)] mod verif_kani_*;` lines and copies the harness/contract modules from /verif/units/kani (add-only, listed in units/kani/inject.json), then runs cargo kani there; Verus units are extracted from /repo by engine/verus_extract.py on every run",
        "baseline_off_cmd": "cd /repo && cargo test --workspace --no-fail-fast --offline",
        "source_commits": reg.get("repo_commits", []),
        "add_only": True,
    },
    "engines": [
        {"name": "verus", "path": "engine/verus_extract.py, engine/verus_run.py, units/verus/*.vrs",
         "serves_properties": sorted({p for u in reg["verus_units"] for p in u["props"] if p in reg["properties"]}),
         "kind_free_text": "Verus 0.2026.09.13 on the verbatim text of the functions, re-extracted from /repo on every run, with requires/ensures/invariants/ghost code spliced from sidecars"},
        {"name": "kani", "path": "engine/kani.py, units/kani/**",
         "serves_properties": sorted(p for p in reg["properties"] if reg["properties"][p].get("kani")),
         "kind_free_text": "Kani 0.68 / CBMC 6.11 on the real crates: harness-as-contract over fully symbolic inputs (complete finite domains) and bounded stand-ins, counterexamples replayed natively"},
    ],
    "checks": checks,
    "not_applicable": na,
    "notes": reg.get("notes", ""),
}
json.dump(m, open(os.path.join(V, "MANIFEST.json"), "w"), indent=1)
print("checks:", [c["property_id"] for c in checks], "n/a:", len(na))
