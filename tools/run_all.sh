#!/bin/sh
# run every claimed check (quick tier unless $1 = thorough) on the current tree; summary at the end
cd /verif
T=${1:-quick}
for p in $(python3 -c "import json; print(' '.join(c['property_id'] for c in json.load(open('MANIFEST.json'))['checks']))"); do
  s=$(date +%s); ./check $p --tier $T > build/run_$p.log 2>&1; rc=$?; e=$(date +%s)
  echo "$p rc=$rc $((e-s))s $(tail -1 build/run_$p.log)"
done
