#!/bin/sh
# usage: tools/seedcheck.sh <property> <patch.diff> [extra ./check args]  -- apply a seeded change to /repo, run the check, undo
P=$1; PATCH=$2; shift 2
git -C /repo apply "$PATCH" || exit 9
( cd /verif && ./check "$P" "$@" ); rc=$?
git -C /repo checkout -- . 
echo "seedcheck rc=$rc"
